"""E3 for C17: C skeleton of manif::decasteljau, extracted from the real header on every run by an
ordered list of rewrite rules (every rule must fire exactly as often as stated; any C++ left over
aborts with UNDECIDED), then verified with CBMC code contracts:

  n_segments_of(N, degree)   the outlined initialiser of `n_segments` (token for token), contract:
                             the result q is the MAXIMAL window count: q*(d-1) <= N-1 < (q+1)*(d-1)
  decasteljau skeleton       containers replaced by ghost size counters, group arithmetic by `blend`;
                             every integer expression, cast, comparison and `unsigned` type is kept.
                             Contract: raises iff N<3 or degree>N or k==0; otherwise every
                             trajectory[...] index < N, every window has exactly `degree` points,
                             window count == (N-1)/(d-1) (+1 wrapping window when closed),
                             curve.size() == windows * segment_k_interp, every Qs[...] in bounds,
                             no unsigned wrap-around, all loops terminate.

What the extraction drops: element values (only counts / indices survive), allocation failure,
the floating-point value t_01.  Domain: N <= NMAX (bounded: 32-bit multiplications and the double
division defeat SAT beyond that) - reported as bounded-domain, not as an unbounded proof.
"""
import os
import re

from engine import build
from engine.core import Undecided
from . import runner

HDR = "include/manif/algorithms/decasteljau.h"

# (literal or regex, replacement, expected count, is_regex)
RULES = [
    ("template <typename LieGroup>\nstd::vector<typename LieGroup::LieGroup>\ndecasteljau(const std::vector<LieGroup>& trajectory,\n"
     "            const unsigned int degree,\n            const unsigned int k_interp,\n            const bool closed_curve = false)",
     "void decasteljau(const unsigned int degree, const unsigned int k_interp, const _Bool closed_curve)", 1, False),
    (r'MANIF_CHECK\(([^,]+),\s*"[^"]*"\);', r"if (!(\1)) { thrown = 1; return; }", None, True),
    ("trajectory.size()", "N", None, False),
    (r"const unsigned int n_segments = static_cast<unsigned int>\(\s*(std::floor\(.*?\))\s*\);",
     "const unsigned int n_segments = n_segments_of(N, degree);", 1, True),
    ("std::vector<std::vector<const LieGroup*>> segments_control_points;", "seg_count = 0; cur_size = 0; all_full = 1; window_open = 0;", 1, False),
    ("segments_control_points.emplace_back(std::vector<const LieGroup*>());", "SEG_NEW();", 2, False),
    (r"segments_control_points\.back\(\)\.push_back\(\s*&trajectory\[([^\]]+)\]\s*\);", r"SEG_PUSH(TRAJ_AT(\1));", 3, True),
    ("std::vector<LieGroup> curve;", "SEG_CLOSE(); curve_size = 0;", 1, False),
    ("segments_control_points.size()", "seg_count", 1, False),
    ("const double t_01 = static_cast<double>(t)/(segment_k_interp);", "/* t_01 dropped */", 1, False),
    ("std::vector<LieGroup> Qs, Qs_tmp;", "unsigned long Qs_size = 0, Qs_tmp_size = 0;", 1, False),
    (r"for \(const auto m : segments_control_points\[s\]\)\s*Qs\.emplace_back\(\*m\);", "Qs_size = SEG_SIZE(s); first_idx = 0;", 1, True),
    ("Qs.size()", "Qs_size", 1, False),
    ("Qs_tmp.push_back( Qs[q].rplus(Qs[q+1].rminus(Qs[q]) * t_01) );", "QS_AT(q); QS_AT(q+1); Qs_tmp_size++;", 1, False),
    ("Qs = Qs_tmp;", "Qs_size = Qs_tmp_size; if (t == segment_k_interp) first_idx++; /* blend(X,Y,1) == Y (C04 lemma) */", 1, False),
    ("Qs_tmp.clear();", "Qs_tmp_size = 0;", 1, False),
    ("curve.push_back(Qs[0]);", "QS_AT(0); LAST_POINT_CHECK(); curve_size++;", 1, False),
    ("return curve;", "return;", 1, False),
]

LEFTOVER = re.compile(r"std::|LieGroup|trajectory|segments_control_points|\bQs\b|\bQs_tmp\b|\bcurve\b|MANIF_|template|\bauto\b|static_cast")


def extract():
    path = os.path.join(build.REPO, HDR)
    txt = open(path).read()
    m = re.search(r"template <typename LieGroup>\s*std::vector<typename LieGroup::LieGroup>\s*decasteljau\(.*?\n\}\n", txt, re.S)
    if not m:
        raise Undecided("decasteljau() not found in " + HDR)
    body = m.group(0)
    body = re.sub(r"//[^\n]*", "", body)
    fired = []
    nseg_expr = None
    for (pat, rep, count, is_re) in RULES:
        if is_re:
            if "n_segments_of" in rep:
                mm = re.search(pat, body, re.S)
                if mm:
                    nseg_expr = mm.group(1)
            body, n = re.subn(pat, rep, body, flags=re.S)
        else:
            n = body.count(pat)
            body = body.replace(pat, rep)
        if n == 0 or (count is not None and n != count):
            raise Undecided("decasteljau extraction: rule %r fired %d times (expected %s)" % (pat[:50], n, count))
        fired.append((pat[:40], n))
    left = LEFTOVER.search(body)
    if left:
        raise Undecided("decasteljau extraction: C++ residue %r" % body[max(0, left.start() - 30):left.end() + 30])
    if nseg_expr is None:
        raise Undecided("decasteljau extraction: n_segments initialiser not found")
    nseg_c = nseg_expr.replace("std::floor", "floor").replace("N", "N")
    nseg_c = re.sub(r"double\(", "(double)(", nseg_c)
    return body, nseg_c, fired


PRELUDE = r'''
#include <math.h>
unsigned long N;
unsigned long seg_count, cur_size, curve_size;
int all_full, thrown, window_open;
unsigned long first_idx;   /* ghost: at t_01 == 1, Qs[q] is the original control point q + first_idx */
#define LAST_POINT_CHECK() __CPROVER_assert(t != segment_k_interp || first_idx == (unsigned long)degree - 1, "last curve point of a window is its last control point")
#define TRAJ_AT(e)   (__CPROVER_assert((unsigned long)(e) < N, "trajectory index in bounds"), 0)
#define SEG_CLOSE()  (window_open ? ((void)((cur_size != degree) ? (all_full = 0) : 0), window_open = 0) : 0)
#define SEG_NEW()    ((void)SEG_CLOSE(), seg_count++, cur_size = 0, window_open = 1)
#define SEG_PUSH(x)  ((void)(x), cur_size++)
#define SEG_SIZE(s)  (__CPROVER_assert((s) < seg_count, "window index in bounds"), (unsigned long)degree)
#define QS_AT(e)     __CPROVER_assert((unsigned long)(e) < Qs_size, "Qs index in bounds")
'''

NSEG = r'''
unsigned int n_segments_of(unsigned long N_, unsigned int degree)
__CPROVER_requires(N_ >= 3 && N_ <= NMAX && degree >= 2 && degree <= N_)
__CPROVER_ensures((unsigned long)__CPROVER_return_value * (degree - 1) <= N_ - 1)
__CPROVER_ensures(N_ - 1 < ((unsigned long)__CPROVER_return_value + 1) * (degree - 1))
__CPROVER_assigns()
{
  unsigned long N = N_;
  return (unsigned int)(%s);
}
void h_nseg(void) { unsigned long n; unsigned int d; n_segments_of(n, d); }
'''


def run_nseg(rep, nmax):
    body, nseg_c, fired = extract()
    src = "#include <math.h>\n#define NMAX %dul\n" % nmax + NSEG % nseg_c
    r = runner.verify("decasteljau_nseg", src, "h_nseg", ["n_segments_of"], timeout=600,
                      cbmc_flags=["--unsigned-overflow-check", "--float-overflow-check", "--nan-check"])
    name = "C17/cbmc/decasteljau/n_segments_is_maximal_window_count(N<=%d)" % nmax
    rep.function("manif::decasteljau (initialiser of n_segments)", HDR)
    if r["status"] == "success":
        rep.ok(name, "CBMC", "cbmc(SAT)", r["time"], detail={"expression": nseg_c, "properties": r["total_props"], "domain": "3 <= N <= %d, 2 <= degree <= N" % nmax})
        return True
    if r["status"] == "failed":
        tr = runner.trace("decasteljau_nseg", ["--unsigned-overflow-check"])
        n = re.findall(r"\bn=(\d+)", tr)
        d = re.findall(r"\bd=(\d+)", tr)
        ret = re.findall(r"return_value[^=\n]*=(\d+)", tr)
        cex = {"N": int(n[-1]) if n else None, "degree": int(d[-1]) if d else None, "n_segments": ret[-1] if ret else None}
        rep.fail(name, "CBMC", "cbmc(SAT)", {"expression": nseg_c, "failed": r.get("failed_lines"), "counterexample": cex},
                 replay_for(cex, closed=False), r["time"])
        return False
    rep.undecide(name, "CBMC", "cbmc", r["status"] + " " + r["log"][-300:])
    return False


def replay_for(cex, closed):
    """replay the counterexample on the real template (SE2d trajectory of N points)"""
    rp = {"input": cex, "failing_input_reproduced": False}
    if cex.get("N") is None or cex.get("degree") is None:
        return rp
    import subprocess
    d = os.path.join(runner.WORK, "replay")
    os.makedirs(d, exist_ok=True)
    src = os.path.join(d, "dc_replay.cpp")
    open(src, "w").write(r'''
#include <manif/SE2.h>
#include <manif/algorithms/decasteljau.h>
#include <cstdio>
#include <cstdlib>
int main(int argc, char** argv) {
  unsigned N = std::atoi(argv[1]), d = std::atoi(argv[2]), k = std::atoi(argv[3]); bool closed = std::atoi(argv[4]);
  std::vector<manif::SE2d> pts;
  for (unsigned i = 0; i < N; ++i) pts.emplace_back(double(i), 0.5 * i, 0.1 * i);
  try {
    auto c = manif::decasteljau(pts, d, k, closed);
    unsigned want = (N - 1) / (d - 1) + (closed ? 1 : 0);
    unsigned per = (d == 2) ? k : k * d;
    std::printf("curve_size %zu expected_windows %u expected_curve_size %u\n", c.size(), want, want * per);
    return c.size() == (size_t)want * per ? 0 : 1;
  } catch (const std::exception& e) { std::printf("exception %s\n", e.what()); return 2; }
}
''')
    exe = os.path.join(d, "dc_replay")
    cmd = ["g++", "-std=c++11", "-O0", "-w", "-I" + os.path.join(build.REPO, "include"), "-I" + os.path.join(build.REPO, "external/tl"),
           "-I/usr/include/eigen3", src, "-o", exe]
    p = subprocess.run(cmd, stdout=subprocess.PIPE, stderr=subprocess.STDOUT, text=True)
    if p.returncode != 0:
        rp["replay_build_error"] = p.stdout[-500:]
        return rp
    try:
        q = subprocess.run([exe, str(cex["N"]), str(cex["degree"]), str(cex.get("k", 1)), "1" if closed else "0"],
                           stdout=subprocess.PIPE, stderr=subprocess.STDOUT, text=True, timeout=60,
                           preexec_fn=runner._limits)
        rp["native_output"] = q.stdout[-300:]
        rp["native_exit"] = q.returncode
        rp["failing_input_reproduced"] = q.returncode != 0
    except subprocess.TimeoutExpired:
        rp["native_output"] = "timeout (does not terminate within 60 s)"
        rp["failing_input_reproduced"] = True
    rp["native_cmd"] = "%s N degree k closed" % exe
    return rp


# ---------------------------------------------------------------- skeleton with loop contracts
# loop contracts keyed by the ordinal of the `for` statement in the extracted text
LOOPS = [
    # 0: for t < n_segments   (build the windows)
    """__CPROVER_assigns(t, seg_count, cur_size, all_full, window_open)
    __CPROVER_loop_invariant(t <= n_segments && seg_count == t && all_full == 1)
    __CPROVER_loop_invariant((t == 0) ? (window_open == 0 && cur_size == 0) : (window_open == 1 && cur_size == degree))
    __CPROVER_decreases(n_segments - t)""",
    # 1: for n < degree
    """__CPROVER_assigns(n, cur_size)
    __CPROVER_loop_invariant(n <= degree && cur_size == n)
    __CPROVER_decreases(degree - n)""",
    # 2: for p = last_pts_idx .. N   (left-over points of the wrapping window)
    """__CPROVER_assigns(p, cur_size)
    __CPROVER_loop_invariant(last_pts_idx <= p && p <= N && cur_size == p - last_pts_idx)
    __CPROVER_decreases(N - p)""",
    # 3: for p < degree-left_over-1   (points from the start)
    """__CPROVER_assigns(p, cur_size)
    __CPROVER_loop_invariant(p <= degree - left_over - 1 && cur_size == (unsigned long)left_over + 1 + p)
    __CPROVER_decreases(degree - left_over - 1 - p)""",
    # 4: for s < seg_count
    """__CPROVER_assigns(s, curve_size, first_idx)
    __CPROVER_loop_invariant(s <= seg_count && curve_size == (unsigned long)s * segment_k_interp)
    __CPROVER_decreases(seg_count - s)""",
    # 5: for t = 1 .. segment_k_interp
    """__CPROVER_assigns(t, curve_size, first_idx)
    __CPROVER_loop_invariant(1 <= t && t <= segment_k_interp + 1 && curve_size == (unsigned long)s * segment_k_interp + (t - 1))
    __CPROVER_decreases(segment_k_interp + 1 - t)""",
    # 6: for i < degree-1
    """__CPROVER_assigns(i, Qs_size, Qs_tmp_size, first_idx)
    __CPROVER_loop_invariant(i <= degree - 1 && Qs_size == (unsigned long)degree - i && Qs_tmp_size == 0)
    __CPROVER_loop_invariant(first_idx == ((t == segment_k_interp) ? (unsigned long)i : 0ul))
    __CPROVER_decreases(degree - 1 - i)""",
    # 7: for q < Qs_size-1
    """__CPROVER_assigns(q, Qs_tmp_size)
    __CPROVER_loop_invariant(q <= Qs_size - 1 && Qs_tmp_size == q)
    __CPROVER_decreases(Qs_size - 1 - q)""",
]

CONTRACT = """
__CPROVER_requires(N <= NMAX && degree >= 2 && degree <= NMAX && k_interp <= KMAX)
__CPROVER_requires(thrown == 0)
__CPROVER_assigns(seg_count, cur_size, all_full, thrown, window_open, curve_size, first_idx)
__CPROVER_ensures(thrown == ((N < 3 || degree > N || k_interp == 0) ? 1 : 0))
__CPROVER_ensures(thrown || all_full == 1)
__CPROVER_ensures(thrown || seg_count == (N - 1) / (degree - 1) + (closed_curve ? 1 : 0))
__CPROVER_ensures(thrown || curve_size == seg_count * ((degree == 2) ? k_interp : k_interp * degree))
"""

NSEG_DECL = """
unsigned int n_segments_of(unsigned long N_, unsigned int degree)
__CPROVER_requires(N_ >= 3 && N_ <= NMAX && degree >= 2 && degree <= N_)
__CPROVER_ensures((unsigned long)__CPROVER_return_value * (degree - 1) <= N_ - 1)
__CPROVER_ensures(N_ - 1 < ((unsigned long)__CPROVER_return_value + 1) * (degree - 1))
__CPROVER_assigns()
;
"""


def skeleton_source(nmax, kmax):
    body, nseg_c, fired = extract()
    # splice the loop contracts
    parts = re.split(r"(for \([^)]*\))", body)
    out, k = [], 0
    for p in parts:
        out.append(p)
        if p.startswith("for ("):
            if k >= len(LOOPS):
                raise Undecided("decasteljau: more loops (%d) than loop contracts" % (k + 1))
            out.append("\n    " + LOOPS[k] + "\n")
            k += 1
    if k != len(LOOPS):
        raise Undecided("decasteljau: %d loops found, %d loop contracts" % (k, len(LOOPS)))
    body = "".join(out)
    # attach the function contract
    head = "void decasteljau(const unsigned int degree, const unsigned int k_interp, const _Bool closed_curve)"
    if head not in body:
        raise Undecided("decasteljau: function head not found after extraction")
    body = body.replace(head, head + CONTRACT)
    src = ("#define NMAX %dul\n#define KMAX %du\n" % (nmax, kmax) + PRELUDE + NSEG_DECL + body +
           "\nvoid h_dc(void) { unsigned int d, k; _Bool c; unsigned long n; N = n; thrown = 0; decasteljau(d, k, c); }\n")
    return src, fired


def run_skeleton(rep, nmax, kmax, timeout=900):
    src, fired = skeleton_source(nmax, kmax)
    r = runner.verify("decasteljau_skel", src, "h_dc", ["decasteljau"], replace=["n_segments_of"], loop_contracts=True,
                      timeout=timeout, cbmc_flags=["--unsigned-overflow-check"])
    name = "C17/cbmc/decasteljau/index_skeleton(N<=%d,k<=%d)" % (nmax, kmax)
    rep.function("manif::decasteljau", HDR)
    log = r.get("raw", "")
    if r["status"] == "success":
        if r.get("ignoring") or r.get("loop_steps", 0) == 0:
            rep.undecide(name, "CBMC", "cbmc", "loop contracts not applied (ignoring=%s, loop steps=%s)" % (r.get("ignoring"), r.get("loop_steps")))
            return False
        rep.ok(name, "CBMC", "cbmc(SAT)+dfcc loop contracts", r["time"],
               detail={"properties": r["total_props"], "loop_invariant_step_checks": r["loop_steps"], "rules_fired": fired,
                       "domain": "N <= %d, 2 <= degree, k_interp <= %d, open and closed" % (nmax, kmax)})
        return True
    if r["status"] == "failed":
        tr = runner.trace("decasteljau_skel", ["--unsigned-overflow-check"])
        def last(pat):
            m = re.findall(pat, tr)
            return int(m[-1]) if m else None
        cex = {"N": last(r"\bn=(\d+)"), "degree": last(r"\bd=(\d+)u?"), "k": last(r"\bk=(\d+)u?"),
               "closed": last(r"\bc=(TRUE|FALSE|\d+)") if False else None}
        mc = re.findall(r"\bc=(TRUE|FALSE)", tr)
        closed = (mc[-1] == "TRUE") if mc else False
        rep.fail(name, "CBMC", "cbmc(SAT)+dfcc", {"failed": r.get("failed_lines", [])[:8], "counterexample": cex, "closed": closed},
                 replay_for(cex, closed), r["time"])
        return False
    rep.undecide(name, "CBMC", "cbmc", r["status"] + " " + r["log"][-600:])
    return False
