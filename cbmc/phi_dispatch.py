"""E3 for C15: the degree dispatch of smoothing_phi, extracted from interpolation.h on every run:
every `degree == K ? (<polynomial>) :` arm becomes `degree == K ? K :`, the final
`(throw std::logic_error(...))` becomes `(thrown = 1, -1)`.  CBMC contract over ALL size_t degrees:
returns the arm K for 1 <= degree <= 4 and raises otherwise."""
import os
import re

from engine import build
from engine.core import Undecided
from . import runner

HDR = "include/manif/algorithms/interpolation.h"

TEMPLATE = r'''
#include <stddef.h>
int thrown;
int phi_dispatch(size_t degree)
__CPROVER_requires(thrown == 0)
__CPROVER_ensures((degree >= 1 && degree <= %d) ? (__CPROVER_return_value == (int)degree && thrown == 0) : (thrown == 1))
__CPROVER_assigns(thrown)
{
  return %s;
}
void h_phi(void) { size_t d; phi_dispatch(d); }
'''


def extract():
    txt = open(os.path.join(build.REPO, HDR)).read()
    m = re.search(r"T smoothing_phi\(const T t, const std::size_t degree\)\s*\{(.*?)\n\}", txt, re.S)
    if not m:
        raise Undecided("smoothing_phi not found")
    body = re.sub(r"//[^\n]*", "", m.group(1))
    r = re.search(r"return\s+(degree == .*?);", body, re.S)
    if not r:
        raise Undecided("smoothing_phi: return chain not found")
    chain = r.group(1)
    arms = re.findall(r"degree == (\d+) \?\s*\((.*?)\)\s*:", chain, re.S)
    if not arms:
        raise Undecided("smoothing_phi: no arms")
    out = chain
    n = 0
    for k, poly in arms:
        pat = "degree == %s ?" % k
        i = out.index(pat)
        j = out.index(":", i)
        out = out[:i] + "degree == %s ? %s " % (k, k) + out[j:]
        n += 1
    out, nt = re.subn(r"\(throw std::logic_error\([^)]*\)\)", "(thrown = 1, -1)", out)
    if nt != 1:
        raise Undecided("smoothing_phi: throw arm rule fired %d times" % nt)
    if re.search(r"std::|T\(|\bthrow\b", out):
        raise Undecided("smoothing_phi: residue %r" % out[:120])
    return out, [int(k) for k, _ in arms]


def run(rep):
    expr, ks = extract()
    name = "C15/cbmc/smoothing_phi/degree_dispatch(all size_t)"
    rep.function("manif::smoothing_phi (degree dispatch)", HDR)
    if ks != list(range(1, len(ks) + 1)):
        rep.fail(name + "/arms", "CBMC", "extract", {"arms": ks}, {"failing_input_reproduced": False})
        return
    r = runner.verify("phi_dispatch", TEMPLATE % (len(ks), expr), "h_phi", ["phi_dispatch"], timeout=120)
    if r["status"] == "success":
        rep.ok(name, "CBMC", "cbmc(SAT)", r["time"], detail={"expression": " ".join(expr.split()), "supported_degrees": ks})
    elif r["status"] == "failed":
        tr = runner.trace("phi_dispatch")
        m = re.findall(r"\bd=(\d+)", tr)
        rep.fail(name, "CBMC", "cbmc(SAT)", {"failed": r.get("failed_lines")},
                 {"failing_input_reproduced": bool(m), "input": {"degree": m[-1] if m else None}}, r["time"])
    else:
        rep.undecide(name, "CBMC", "cbmc", r["status"] + r["log"][-300:])
