"""Thin wrapper around goto-cc / goto-instrument --dfcc / cbmc with timeouts and memory limits.
Results: ('success' | 'failed' | 'error' | 'timeout', log text, seconds)."""
import os
import re
import resource
import shutil
import subprocess
import tempfile
import time

VERIF = os.path.dirname(os.path.dirname(os.path.abspath(__file__)))
WORK = os.path.join(VERIF, ".build", "cbmc")


def _limits():
    resource.setrlimit(resource.RLIMIT_AS, (12 * 2 ** 30, 12 * 2 ** 30))


def _run(cmd, timeout, cwd):
    t = time.time()
    try:
        p = subprocess.run(cmd, cwd=cwd, stdout=subprocess.PIPE, stderr=subprocess.STDOUT, text=True,
                           timeout=timeout, preexec_fn=_limits)
        return p.returncode, p.stdout, time.time() - t
    except subprocess.TimeoutExpired as e:
        return -9, (e.stdout or "") if isinstance(e.stdout, str) else "", time.time() - t


def verify(name, c_source, harness, enforce, replace=(), loop_contracts=False, cbmc_flags=(), timeout=300,
           defines=()):
    """compile c_source, instrument contracts (dfcc), run cbmc.  -> dict"""
    d = os.path.join(WORK, name)
    shutil.rmtree(d, ignore_errors=True)
    os.makedirs(d)
    src = os.path.join(d, name + ".c")
    with open(src, "w") as fh:
        fh.write(c_source)
    log = []
    cmd = ["goto-cc", "--function", harness] + ["-D" + x for x in defines] + [src, "-o", "a.gb"]
    rc, out, dt = _run(cmd, 120, d)
    log.append("$ " + " ".join(cmd) + "\n" + out)
    if rc != 0:
        return {"status": "error", "log": "\n".join(log), "time": dt, "dir": d}
    cmd = ["goto-instrument", "--dfcc", harness]
    for f in enforce:
        cmd += ["--enforce-contract", f]
    for f in replace:
        cmd += ["--replace-call-with-contract", f]
    if loop_contracts:
        cmd += ["--apply-loop-contracts"]
    cmd += ["a.gb", "b.gb"]
    rc, out, dt2 = _run(cmd, 300, d)
    log.append("$ " + " ".join(cmd) + "\n" + out[-4000:])
    if rc != 0:
        return {"status": "error", "log": "\n".join(log), "time": dt + dt2, "dir": d}
    cmd = ["cbmc", "b.gb", "--bounds-check", "--pointer-check", "--div-by-zero-check",
           "--signed-overflow-check", "--conversion-check"] + list(cbmc_flags)
    rc, out, dt3 = _run(cmd, timeout, d)
    log.append("$ " + " ".join(cmd) + "\n" + out[-12000:])
    total = dt + dt2 + dt3
    # clean solver droppings
    for f in os.listdir("/tmp"):
        if f.startswith("external-sat") or f.startswith("goto-cc-"):
            try:
                p = os.path.join("/tmp", f)
                shutil.rmtree(p) if os.path.isdir(p) else os.unlink(p)
            except OSError:
                pass
    res = {"log": "\n".join(log), "time": total, "dir": d, "raw": out}
    if rc == -9:
        res["status"] = "timeout"
        return res
    m = re.search(r"\*\* (\d+) of (\d+) failed", out)
    res["failed_props"] = int(m.group(1)) if m else None
    res["total_props"] = int(m.group(2)) if m else None
    res["ignoring"] = "ignoring" in out
    res["loop_steps"] = len(re.findall(r"loop_invariant_step|loop invariant.*step|Check invariant after step", out))
    if "VERIFICATION SUCCESSFUL" in out and m and int(m.group(2)) > 0:
        res["status"] = "success"
    elif "VERIFICATION FAILED" in out:
        res["status"] = "failed"
        res["failed_names"] = re.findall(r"^\[([^\]]+)\].*: FAILURE$", out, re.M)
        res["failed_lines"] = [l for l in out.splitlines() if l.endswith("FAILURE")]
    else:
        res["status"] = "error"
    return res


def trace(name, harness_flags=(), timeout=300):
    """re-run cbmc with --trace on the instrumented binary of `name` to get a counterexample"""
    d = os.path.join(WORK, name)
    cmd = ["cbmc", "b.gb", "--bounds-check", "--pointer-check", "--div-by-zero-check", "--signed-overflow-check",
           "--conversion-check", "--stop-on-fail", "--trace"] + list(harness_flags)
    rc, out, dt = _run(cmd, timeout, d)
    return out
