"""E3 for C07: the index dispatch of every GeneratorEvaluator<...>::run, extracted mechanically
from the real header on every run and put under a CBMC code contract that covers ALL 2^32
values of the index:

    int gen_index(unsigned int i, int *thrown)
    __CPROVER_ensures( (i < DOF) ? (return == i && !*thrown) : (*thrown == 1) )

What the extraction keeps: the parameter type (unsigned int), the `switch (i)`, every `case K:`
label, the `default:` arm, every MANIF_CHECK condition on i.  What it drops: the bodies of the
case blocks (matrix initialisers) - each is replaced by `return K;` where K is the number in
the name of the static it returns (`return E<K>;`), so a case that returns the wrong table
also fails the contract.  Every rewrite rule must fire; otherwise the check is UNDECIDED (exit 2).
"""
import os
import re

from engine import build
from engine.core import Undecided
from . import runner

GROUPS = {
    "SO2": ("so2/SO2Tangent_base.h", 1), "SE2": ("se2/SE2Tangent_base.h", 3), "SO3": ("so3/SO3Tangent_base.h", 3),
    "SE3": ("se3/SE3Tangent_base.h", 6), "SE_2_3": ("se_2_3/SE_2_3Tangent_base.h", 9),
    "SGal3": ("sgal3/SGal3Tangent_base.h", 10), "Rn": ("rn/RnTangent_base.h", None),
    "Bundle": ("bundle/BundleTangent_base.h", None),
}


def extract(group):
    rel, dof = GROUPS[group]
    path = os.path.join(build.REPO, "include/manif/impl", rel)
    txt = open(path).read()
    m = re.search(r"struct GeneratorEvaluator<\w+TangentBase<Derived>>\s*\{(.*?)\n\};", txt, re.S)
    if not m:
        raise Undecided("GeneratorEvaluator not found in " + rel)
    body = m.group(1)
    m2 = re.search(r"run\(const unsigned int i\)\s*\{(.*?)\n  \}", body, re.S)
    if not m2:
        raise Undecided("GeneratorEvaluator::run(const unsigned int i) not found in " + rel)
    fn = m2.group(1)
    fired = []
    # rule 1: case blocks  `case K: { ... return E<J>; }`  ->  `case K: return J;`
    def case_sub(mm):
        fired.append("case")
        return "case %s: return %s;" % (mm.group(1), mm.group(2))
    fn2 = re.sub(r"case\s+(\d+)\s*:\s*\{.*?return\s+E(\d+)\s*;\s*\}", case_sub, fn, flags=re.S)
    # rule 2: MANIF_THROW in default arm
    def throw_sub(mm):
        fired.append("throw")
        return "{ *thrown = 1; return -1; }"
    fn2 = re.sub(r"MANIF_THROW\([^;]*invalid_argument\);", throw_sub, fn2)
    # rule 3: MANIF_CHECK(cond, msg, invalid_argument)
    def check_sub(mm):
        fired.append("check")
        cond = mm.group(1).strip()
        cond = re.sub(r"\w+TangentBase<Derived>::DoF", "DOF", cond)
        return "if (!(%s)) { *thrown = 1; return -1; }" % cond
    fn2 = re.sub(r"MANIF_CHECK\(\s*([^,]*?),\s*\"[^\"]*\",\s*invalid_argument\s*\);", check_sub, fn2, flags=re.S)
    has_switch = "switch (i)" in fn2 or "switch(i)" in fn2
    if has_switch:
        if "case" not in fired or "throw" not in fired:
            raise Undecided("generator switch of %s: rewrite rules did not fire (%s)" % (group, fired))
        ncase = fired.count("case")
        # keep only the switch statement, then the trailing `return LieAlg{}` becomes unreachable marker
        sw = fn2[fn2.index("switch"):]
        sw = re.sub(r"return\s+LieAlg\s*\{\s*\}\s*;", "return -2;", sw)
        if "return -2;" not in sw:
            raise Undecided("generator switch of %s: trailing return not found" % group)
        code = sw
        residue = re.sub(r"switch \(i\)|case \d+: return \d+;|default:|break;|return -\d;|\{ \*thrown = 1; return -1; \}|[{}\s]", "", code)
        if residue:
            raise Undecided("generator switch of %s: unrewritten residue %r" % (group, residue[:80]))
    else:
        if "check" not in fired:
            raise Undecided("generator of %s: MANIF_CHECK rule did not fire" % group)
        # everything after the check builds the matrix for index i: dropped, the index reached is i
        chk = re.search(r"if \(!\(.*?\)\) \{ \*thrown = 1; return -1; \}", fn2, re.S).group(0)
        code = chk + "\n  return (int)i;"
        ncase = None
    return code, dof, fired, ncase


TEMPLATE = r'''
#include <stddef.h>
#ifndef DOF_FIXED
unsigned int DOF;   /* symbolic compile-time constant (any N >= 1) */
#else
#define DOF DOF_FIXED
#endif

int gen_index(unsigned int i, int *thrown)
__CPROVER_requires(__CPROVER_is_fresh(thrown, sizeof(int)) && *thrown == 0)
__CPROVER_requires(DOF >= 1 && DOF <= 2147483647u)
__CPROVER_ensures((i < DOF) ? (__CPROVER_return_value == (int)i && *thrown == 0) : (*thrown == 1))
__CPROVER_assigns(*thrown)
{
  %s
}

void h_gen_index(void)
{
  unsigned int i;
  int thrown = 0;
#ifndef DOF_FIXED
  unsigned int n;
  __CPROVER_assume(n >= 1 && n <= 2147483647u);
  DOF = n;
#endif
  gen_index(i, &thrown);
}
'''


def run(rep, tier):
    for group in GROUPS:
        name = "C07/cbmc/GeneratorEvaluator<%sTangentBase>::run/index_domain" % group
        code, dof, fired, ncase = extract(group)
        if ncase is not None and ncase != dof:
            rep.fail(name + "/case_count", "CBMC", "extract", {"cases": ncase, "DoF": dof},
                     {"failing_input_reproduced": True, "input": {"i": "a missing case index"}})
            continue
        src = TEMPLATE % code
        defs = ["DOF_FIXED=%du" % dof] if dof is not None else []
        r = runner.verify("gen_" + group, src, "h_gen_index", ["gen_index"], defines=defs, timeout=120)
        rep.function("GeneratorEvaluator<%sTangentBase>::run" % group, "include/manif/impl/" + GROUPS[group][0])
        if r["status"] == "success":
            rep.ok(name, "CBMC", "cbmc(SAT)", r["time"],
                   detail={"properties": r["total_props"], "rules_fired": fired, "domain": "all 2^32 indices"})
        elif r["status"] == "failed":
            tr = runner.trace("gen_" + group)
            m = re.findall(r"\bi=(\d+)u?", tr)
            rep.fail(name, "CBMC", "cbmc(SAT)", {"failed": r.get("failed_lines"), "trace_tail": tr[-1500:]},
                     {"failing_input_reproduced": bool(m), "input": {"i": m[-1] if m else None},
                      "note": "replay: call Tangent::Generator(i) with this index on the real code"}, r["time"])
        else:
            rep.undecide(name, "CBMC", "cbmc", r["status"] + ": " + r["log"][-400:])
