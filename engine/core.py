"""Obligation bookkeeping, evidence, violation / replay reporting."""
import json
import os
import re
import sys
import time

VERIF = os.path.dirname(os.path.dirname(os.path.abspath(__file__)))


class Undecided(Exception):
    """the machinery could not decide (timeout, extraction break, incomplete normal form) -> exit 2"""


class KnownFindings:
    def __init__(self, path=None):
        self.findings, self.fixed = [], []
        path = path or os.path.join(VERIF, "known_findings.txt")
        if os.path.exists(path):
            for line in open(path):
                line = line.strip()
                if line.startswith("finding:"):
                    kv = dict(re.findall(r"(\w+)=(\S+)", line))
                    rest = line.split(" ", 3)[3] if len(line.split(" ", 3)) > 3 else ""
                    self.findings.append({"property": kv.get("property"), "obligation": kv.get("obligation"),
                                          "text": rest, "line": line})
                elif line.startswith("fixed:"):
                    self.fixed.append(line)

    def match(self, pid, obligation):
        for f in self.findings:
            if f["property"] != pid or not f["obligation"]:
                continue
            pat = f["obligation"]
            import fnmatch
            if pat == obligation or fnmatch.fnmatchcase(obligation, pat):
                return f
        return None


class Report:
    def __init__(self, pid, tier, seed, level="proof"):
        self.pid, self.tier, self.seed, self.level = pid, tier, seed, level
        self.t0 = time.time()
        self.obligations = []
        self.functions = {}          # qualified function -> source file
        self.trusted = []
        self.assumptions = []
        self.backends = {}           # backend -> [count, time]
        self.violations = []
        self.undecided = []
        self.known = KnownFindings()
        self.known_hit = []
        self.notes = []
        self.samples = []
        self.extra = {}
        self.not_run = []
        self.bounded = []
        default = "1500" if tier == "quick" else "21600"
        self.budget_s = float(os.environ.get("VERIF_BUDGET_S", default))

    def check_budget(self):
        if time.time() - self.t0 > self.budget_s:
            raise Undecided("time budget of %.0f s exceeded after %d obligations (set VERIF_BUDGET_S to raise it)"
                            % (self.budget_s, len(self.obligations)))

    # ---- fork-per-item parallelism (results merged in item order: the evidence does not depend on scheduling)
    _MERGE_LISTS = ("obligations", "violations", "undecided", "known_hit", "bounded")
    _MERGE_UNIQ = ("trusted", "assumptions", "notes", "not_run")

    def parallel(self, items, fn, jobs=None):
        """run fn(rep_i, item) for every item in forked children (rep_i: a fresh Report sharing this one's
        identity and time budget) and merge what they recorded, in item order"""
        import pickle
        import tempfile
        import traceback
        jobs = int(os.environ.get("VERIF_JOBS", jobs or min(14, os.cpu_count() or 1)))
        items = list(items)
        if jobs <= 1 or len(items) <= 1 or os.environ.get("VERIF_SERIAL"):
            for it in items:
                fn(self, it)
            return
        tmpd = tempfile.mkdtemp(prefix="par_", dir=os.path.join(VERIF, ".build", "tmp") if os.path.isdir(os.path.join(VERIF, ".build", "tmp")) else None)
        sys.stdout.flush()
        sys.stderr.flush()
        running, nxt, outfiles = {}, 0, {}
        try:
            while nxt < len(items) or running:
                while nxt < len(items) and len(running) < jobs:
                    out = os.path.join(tmpd, "%d.pkl" % nxt)
                    outfiles[nxt] = out
                    pid = os.fork()
                    if pid == 0:
                        code = 0
                        try:
                            sub = Report(self.pid, self.tier, self.seed, self.level)
                            sub.t0, sub.budget_s = self.t0, self.budget_s
                            state = {"error": None}
                            try:
                                t_item = time.time()
                                fn(sub, items[nxt])
                                sub.progress("item %d/%d done in %.1fs" % (nxt + 1, len(items), time.time() - t_item))
                            except Undecided as e:
                                state["error"] = ("undecided", str(e))
                            except BaseException:
                                state["error"] = ("exception", traceback.format_exc())
                            for k in self._MERGE_LISTS + self._MERGE_UNIQ + ("functions", "backends", "samples", "extra"):
                                state[k] = getattr(sub, k)
                            with open(out + ".tmp", "wb") as f:
                                pickle.dump(state, f)
                            os.rename(out + ".tmp", out)
                        except BaseException:
                            code = 3
                        finally:
                            sys.stdout.flush()
                            sys.stderr.flush()
                            os._exit(code)
                    running[pid] = nxt
                    nxt += 1
                pid, status = os.wait()
                running.pop(pid, None)
            err = None
            for i in range(len(items)):
                if not os.path.exists(outfiles[i]):
                    raise Undecided("worker for %r died without a result" % (items[i],))
                with open(outfiles[i], "rb") as f:
                    st = pickle.load(f)
                for k in self._MERGE_LISTS:
                    getattr(self, k).extend(st[k])
                for k in self._MERGE_UNIQ:
                    cur = getattr(self, k)
                    for x in st[k]:
                        if x not in cur:
                            cur.append(x)
                self.functions.update(st["functions"])
                for b, (n, t) in st["backends"].items():
                    cur = self.backends.setdefault(b, [0, 0.0])
                    cur[0] += n
                    cur[1] += t
                for smp in st["samples"]:
                    if len(self.samples) < 6:
                        self.samples.append(smp)
                self.extra.update(st["extra"])
                if st["error"] and err is None:
                    err = st["error"]
            if err:
                if err[0] == "undecided":
                    raise Undecided(err[1])
                raise RuntimeError("worker failed:\n" + err[1])
        finally:
            for pid in list(running):
                try:
                    os.kill(pid, 9)
                except OSError:
                    pass
            import shutil
            shutil.rmtree(tmpd, ignore_errors=True)

    def progress(self, msg):
        if os.environ.get("VERIF_VERBOSE"):
            sys.stderr.write("[%7.1fs] %s\n" % (time.time() - self.t0, msg))
            sys.stderr.flush()

    # ---- registration
    def function(self, qualified, file):
        self.functions[qualified] = file

    def trust(self, *items):
        for i in items:
            if i not in self.trusted:
                self.trusted.append(i)

    def assume(self, *items):
        for i in items:
            if i not in self.assumptions:
                self.assumptions.append(i)

    def ok(self, name, kind, backend, dt=0.0, detail=None):
        self.obligations.append({"name": name, "kind": kind, "status": "discharged", "backend": backend,
                                 "time_s": round(dt, 4)})
        b = self.backends.setdefault(backend, [0, 0.0])
        b[0] += 1
        b[1] += dt
        if detail is not None and len(self.samples) < 6:
            self.samples.append({"obligation": name, "kind": kind, "backend": backend, "detail": detail})

    def fail(self, name, kind, backend, detail, replay=None, dt=0.0):
        """a decisive failure of a named obligation"""
        f = self.known.match(self.pid, name)
        self.obligations.append({"name": name, "kind": kind, "status": "failed" if not f else "known-finding",
                                 "backend": backend, "time_s": round(dt, 4)})
        if f:
            self.known_hit.append((f, name))
            return
        self.violations.append({"obligation": name, "kind": kind, "backend": backend, "detail": detail,
                                "replay": replay})

    def standin(self, name, kind, backend, detail):
        """bounded / sampled stand-in for an obligation outside the verifier's reach:
        reported, never counted as proved"""
        self.bounded.append({"name": name, "kind": kind, "backend": backend, "detail": detail})

    def undecide(self, name, kind, backend, why):
        self.obligations.append({"name": name, "kind": kind, "status": "undecided", "backend": backend})
        self.undecided.append({"obligation": name, "why": why})

    # ---- output
    def write_replay(self, v):
        d = os.path.join(VERIF, "replay", self.pid)
        if os.environ.get("VERIF_REPO"):
            d = os.path.join(VERIF, ".build", "scratch_replay", self.pid)
        os.makedirs(d, exist_ok=True)
        fn = re.sub(r"[^A-Za-z0-9_.\-]", "_", v["obligation"])[:150] + ".json"
        p = os.path.join(d, fn)
        with open(p, "w") as fh:
            json.dump({"property": self.pid, "obligation": v["obligation"], "kind": v["kind"],
                       "backend": v["backend"], "verifier_output": v["detail"], "replay": v["replay"]},
                      fh, indent=1, default=str)
        return p

    def finish(self, checker_cmd):
        wall = time.time() - self.t0
        n = len(self.obligations)
        disch = sum(1 for o in self.obligations if o["status"] == "discharged")
        lines = []
        seen = set()
        for f, name in self.known_hit:
            if f["line"] in seen:
                continue
            seen.add(f["line"])
            lines.append("KNOWN-FINDING: property=%s %s" % (self.pid, f["line"].split(" ", 2)[2]))
        for v in self.violations:
            p = self.write_replay(v)
            suffix = ""
            rp = v.get("replay") or {}
            if not rp.get("failing_input_reproduced"):
                suffix = " no-failing-input-found"
            lines.append("VIOLATION property=%s replay=%s obligation=%s%s" % (self.pid, p, v["obligation"], suffix))
        for u in self.undecided:
            lines.append("UNDECIDED property=%s obligation=%s why=%s" % (self.pid, u["obligation"], u["why"]))
        if n == 0:
            lines.append("UNDECIDED property=%s no obligations were generated (vacuity guard)" % self.pid)
        kinds = {}
        for o in self.obligations:
            k = kinds.setdefault(o["kind"], [0, 0])
            k[0] += 1
            if o["status"] == "discharged":
                k[1] += 1
        nk = len([o for o in self.obligations if o["status"] == "known-finding"])
        cov = {
            "obligations": n - nk,
            "obligations_generated_including_known_findings": n,
            "discharged": disch,
            "known_findings": len([o for o in self.obligations if o["status"] == "known-finding"]),
            "checker_cmd": checker_cmd,
            "trusted_base": self.trusted,
            "functions_under_contract": [{"function": k, "file": v} for k, v in sorted(self.functions.items())],
            "obligations_by_kind": {k: {"generated": v[0], "discharged": v[1]} for k, v in kinds.items()},
            "backends": {k: {"obligations": v[0], "solver_time_s": round(v[1], 3)} for k, v in self.backends.items()},
            "samples": self.samples,
            "not_run": self.not_run,
            "bounded_standins_not_counted_as_proved": len(self.bounded),
            "bounded": self.bounded[:40],
            "notes": self.notes,
            "evaluations": n,
            "distinct_nontrivial": len(set(o["name"] for o in self.obligations)),
            "rule": "one obligation per (function under contract, feasible path, ensures clause, matrix entry)",
        }
        import re as _re
        by = {}
        for o in self.obligations:
            parts = o["name"].split("/")
            key = "/".join(parts[:3])
            key = _re.sub(r"\[[01]*\]$", "", key)
            st = by.setdefault(key, [0, 0])
            st[0] += 1
            if o["status"] == "discharged":
                st[1] += 1
        reasons = {}
        for b in self.bounded:
            d = b.get("detail") or {}
            why = d.get("why_not_proved") if isinstance(d, dict) else None
            if isinstance(why, dict):
                why = why.get("taylor") or ("interval bound above tolerance" if any(k.startswith("bound_scale") for k in why) else str(why)[:80])
            key = "%s | %s" % (b.get("backend"), (why or "")[:100])
            reasons[key] = reasons.get(key, 0) + 1
        cov["bounded_standins_by_reason"] = reasons
        bys = {}
        for b in self.bounded:
            key = _re.sub(r"\[[01]*\]$", "", "/".join(b["name"].split("/")[:3])) + " | " + str(b.get("backend"))
            bys[key] = bys.get(key, 0) + 1
        cov["bounded_standins_by_function_scenario"] = dict(sorted(bys.items())[:400])
        cov["obligations_by_function_scenario"] = {k: {"generated": v[0], "discharged": v[1]} for k, v in sorted(by.items())[:600]}
        cov.update(self.extra)
        ev = {
            "property_id": self.pid, "tier": self.tier, "seed": self.seed, "level": self.level,
            "coverage": cov, "assumptions": self.assumptions, "wall_s": round(wall, 2),
            "violations": len(self.violations),
        }
        evdir = os.environ.get("VERIF_EVIDENCE_DIR") or os.path.join(VERIF, "evidence")
        if os.environ.get("VERIF_REPO") and not os.environ.get("VERIF_EVIDENCE_DIR"):
            evdir = os.path.join(VERIF, ".build", "scratch_evidence")   # runs against a scratch copy never touch /verif/evidence
        os.makedirs(evdir, exist_ok=True)
        with open(os.path.join(evdir, self.pid + ".json"), "w") as fh:
            json.dump(ev, fh, indent=1, default=str)
        for l in lines:
            print(l)
        print("%s: %d obligations, %d discharged, %d violations, %d undecided, %d known-finding, %d bounded stand-ins, %.1fs" % (
            self.pid, n, disch, len(self.violations), len(self.undecided), len(self.known_hit), len(self.bounded), wall))
        sys.stdout.flush()
        if self.violations:
            return 1
        if self.undecided or n == 0:
            return 2
        return 0
