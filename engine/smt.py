"""z3 (QF_NRA) queries over the generators of an Alg: path feasibility and
polynomial inequalities.  `unsat` answers are used as proofs; `sat` answers are
only used to obtain candidate inputs (always re-validated numerically)."""
import time
from fractions import Fraction

import z3


def poly_to_z3(alg, p, zv):
    names = list(alg.gen.keys())
    terms = []
    for mon, c in p.items():
        t = z3.RealVal(str(Fraction(int(c.numerator), int(c.denominator))))
        for i, e in enumerate(mon):
            if e:
                v = zv(names[i])
                for _ in range(e):
                    t = t * v
        terms.append(t)
    if not terms:
        return z3.RealVal(0)
    return z3.Sum(terms)


class Z3Ctx:
    def __init__(self, alg, timeout_ms=20000):
        self.alg = alg
        self.vars = {}
        self.timeout_ms = timeout_ms

    def zv(self, name):
        if name not in self.vars:
            self.vars[name] = z3.Real(name)
        return self.vars[name]

    def expr(self, p):
        return poly_to_z3(self.alg, p, self.zv)

    def gens_of(self, polys):
        names = list(self.alg.gen.keys())
        out = set()
        for p in polys:
            for mon in p:
                for i, e in enumerate(mon):
                    if e:
                        out.add(names[i])
        return out

    def base_constraints(self, extra_facts=(), without_inverses=False, only_gens=None):
        """without_inverses: drop the defining relations d*I = 1 of inverse generators (they presuppose
        d != 0, which is exactly what a SAFE query must not assume)"""
        cs = []
        inv_names = [n for n, (a, r) in self.alg.gen_atom.items() if a.kind == "inv"]
        if only_gens is not None:
            # relevance filter: keep a relation only if all its generators are already relevant
            # (closure: atoms defined over relevant generators become relevant themselves)
            keep = set(only_gens)
            changed = True
            rels = list(self.alg.relations)
            chosen = []
            while changed:
                changed = False
                for r in rels:
                    if any(r is c_ for c_ in chosen):
                        continue
                    g = self.gens_of([r])
                    atoms = set(n for n in g if n in self.alg.gen_atom)
                    if g - atoms <= keep and (atoms & keep or not atoms):
                        chosen.append(r)
                        if not g <= keep:
                            keep |= g
                            changed = True
            use = chosen
        else:
            use = self.alg.relations
        for r in use:
            if without_inverses and self.alg.uses_gens(r, inv_names):
                continue
            cs.append(self.expr(r) == 0)
        for n in self.alg.nonneg:
            if only_gens is not None and n not in keep:
                continue
            cs.append(self.zv(n) >= 0)
        for n, f in self.alg.sign.items():
            if only_gens is not None and n not in keep:
                continue
            v = self.zv(n)
            cs.append({"pos": v > 0, "nonneg": v >= 0, "neg": v < 0, "nonpos": v <= 0}[f])
        # trig generators are bounded
        for (sn, cn) in self.alg.trig_gens:
            if only_gens is not None and sn not in keep and cn not in keep:
                continue
            cs.append(self.zv(sn) >= -1)
            cs.append(self.zv(sn) <= 1)
            cs.append(self.zv(cn) >= -1)
            cs.append(self.zv(cn) <= 1)
        # A-TAYLOR enclosures valid for every real argument b:
        #   b >= 0: b - b^3/6 <= sin b <= b ;  b <= 0: b <= sin b <= b - b^3/6 ;  1 - b^2/2 <= cos b <= 1 - b^2/2 + b^4/24
        for (sn, cn) in self.alg.trig_gens:
            if only_gens is not None and sn not in keep and cn not in keep:
                continue
            b = self.expr(self.alg.gen_atom[sn][0].args[0])
            S, Cc = self.zv(sn), self.zv(cn)
            cs.append(z3.Implies(b >= 0, z3.And(S <= b, S >= b - b * b * b / 6)))
            cs.append(z3.Implies(b <= 0, z3.And(S >= b, S <= b - b * b * b / 6)))
            cs.append(Cc >= 1 - b * b / 2)
            cs.append(Cc <= 1 - b * b / 2 + b * b * b * b / 24)
        for name, (atom, role) in self.alg.gen_atom.items():
            if only_gens is not None and name not in keep:
                continue
            if atom.kind == "atan2":
                # range (-pi, pi] with rational enclosures of pi
                cs.append(self.zv(name) > -z3.RealVal("3.1415926535897933"))
                cs.append(self.zv(name) <= z3.RealVal("3.1415926535897933"))
                # |A| >= |sin A| = |y|/r  and  sign(A) = sign(y)
                y, x = atom.args
                A = self.zv(name)
                cs.append(A * A * self.expr(x * x + y * y) >= self.expr(y * y))
                cs.append(A * self.expr(y) >= 0)
                # A == 0  <=>  y == 0 and x > 0
                cs.append((A == 0) == z3.And(self.expr(y) == 0, self.expr(x) > 0))
        cs.extend(extra_facts)
        return cs

    def decisions(self, path):
        cs = []
        for d in path.decisions:
            a, b = self.alg.P(d.a), self.alg.P(d.b)
            e = self.expr(self.alg.nf(b - a))
            if d.rel == "lt":
                cs.append(e > 0 if d.val else e <= 0)
            else:
                cs.append(e == 0 if d.val else e != 0)
        return cs

    def check(self, constraints):
        """-> ('sat', model dict) | ('unsat', None) | ('unknown', None), seconds"""
        s = z3.Solver()
        s.set("timeout", self.timeout_ms)
        for c in constraints:
            s.add(c)
        t = time.time()
        r = s.check()
        dt = time.time() - t
        if r == z3.sat:
            m = s.model()
            vals = {}
            for name, v in self.vars.items():
                mv = m.eval(v, model_completion=True)
                try:
                    vals[name] = Fraction(mv.numerator_as_long(), mv.denominator_as_long())
                except Exception:
                    try:
                        vals[name] = Fraction(mv.approx(30).numerator_as_long(), mv.approx(30).denominator_as_long())
                    except Exception:
                        vals[name] = None
            return "sat", vals, dt
        if r == z3.unsat:
            return "unsat", None, dt
        return "unknown", None, dt
