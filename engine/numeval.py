"""High-precision numeric evaluation (mpmath) of DAG nodes and of polynomials of
an Alg.  Used (a) to find a concrete failing input for a failed obligation
(replay), (b) to separate 'identity is false' from 'normal form incomplete',
(c) as Schwartz-Zippel style defence in depth."""
import mpmath as mp

mp.mp.dps = 150


def _sqrt(a):
    if a < 0:
        if a > -mp.mpf(10) ** (-100):
            return mp.mpf(0)
        raise ValueError("sqrt of negative number")
    return mp.sqrt(a)


def mpf(x):
    from fractions import Fraction
    if isinstance(x, Fraction):
        return mp.mpf(x.numerator) / mp.mpf(x.denominator)
    return mp.mpf(x)


class DagEval:
    def __init__(self, path, values):
        self.path = path
        self.values = {k: mpf(v) for k, v in values.items()}
        self.memo = {}

    def node(self, nid):
        if nid in self.memo:
            return self.memo[nid]
        nodes = self.path.nodes
        stack = [nid]
        while stack:
            i = stack[-1]
            if i in self.memo:
                stack.pop()
                continue
            n = nodes[i]
            need = [c for c in (n.a, n.b) if c >= 0 and c not in self.memo]
            if need:
                stack.extend(need)
                continue
            self.memo[i] = self._ev(n)
            stack.pop()
        return self.memo[nid]

    def _ev(self, n):
        op = n.op
        if op == "const":
            return mpf(n.const)
        if op == "var":
            return self.values[n.name]
        if op in ("poison", "undef"):
            return mp.mpf("7.77e77")
        a = self.memo[n.a] if n.a >= 0 else None
        b = self.memo[n.b] if n.b >= 0 else None
        if op == "add":
            return a + b
        if op == "sub":
            return a - b
        if op == "mul":
            return a * b
        if op == "div":
            return a / b
        if op == "neg":
            return -a
        if op == "sin":
            return mp.sin(a)
        if op == "cos":
            return mp.cos(a)
        if op == "tan":
            return mp.tan(a)
        if op == "sqrt":
            return _sqrt(a)
        if op == "abs":
            return abs(a)
        if op == "atan2":
            return mp.atan2(a, b)
        if op == "acos":
            return mp.acos(a)
        if op == "asin":
            return mp.asin(a)
        if op == "cbrt":
            return mp.cbrt(a)
        if op == "exp":
            return mp.exp(a)
        if op == "log":
            return mp.log(a)
        if op == "floor":
            return mp.floor(a)
        if op == "ceil":
            return mp.ceil(a)
        raise ValueError(op)

    def follows_path(self, tol=0):
        """do the values take exactly this path's decisions?  (tol > 0: a comparison whose
        sides differ by at most tol is accepted either way - used for threshold samples)"""
        try:
            for d in self.path.decisions:
                a, b = self.node(d.a), self.node(d.b)
                if tol and abs(a - b) <= tol:
                    continue
                v = (a < b) if d.rel == "lt" else (a == b)
                if bool(v) != d.val:
                    return False
        except (ZeroDivisionError, ValueError):
            return False
        return True


def gen_values(alg, values):
    """numeric value of every generator of alg (variables from `values`, atom
    generators from their definitions)"""
    vals = {}
    for name in alg.var_names:
        vals[name] = mpf(values.get(name, 0)) if not name.startswith("__") else mp.mpf(0)
    vals["UNDEF"] = mp.mpf("7.77e77")
    vals["DIVZERO"] = mp.mpf("9.99e99")
    names = list(alg.gen.keys())
    for name in alg.pool_names[:alg.pool_used]:
        atom, role = alg.gen_atom[name]
        k = atom.kind
        args = [poly_value(alg, a, vals, names) for a in atom.args]
        if k == "trig":
            vals[name] = mp.sin(args[0]) if role == "sin" else mp.cos(args[0])
        elif k == "sqrt":
            vals[name] = _sqrt(args[0])
        elif k == "inv":
            vals[name] = 1 / args[0]
        elif k == "abs":
            vals[name] = abs(args[0])
        elif k == "atan2":
            vals[name] = mp.atan2(args[0], args[1])
        elif k == "cbrt":
            vals[name] = mp.cbrt(args[0])
        elif k in ("acos", "asin", "exp", "log", "floor", "ceil"):
            vals[name] = getattr(mp, k)(args[0])
        elif k == "taylor_rem":
            a = args[0]
            if alg.gen_desc[name][0] == "taylor_rem_sin":
                vals[name] = ((mp.sin(a) - (a - a ** 3 / 6 + a ** 5 / 120 - a ** 7 / 5040)) / a ** 9
                              if a != 0 else mp.mpf(1) / 362880)
            else:
                vals[name] = ((mp.cos(a) - (1 - a ** 2 / 2 + a ** 4 / 24 - a ** 6 / 720)) / a ** 8
                              if a != 0 else mp.mpf(1) / 40320)
        elif k == "free":
            vals[name] = mpf(values[atom.info])
        else:
            raise ValueError(k)
    return vals


def poly_value(alg, p, vals, names=None):
    names = names or list(alg.gen.keys())
    tot = mp.mpf(0)
    for mon, c in p.items():
        t = mp.mpf(int(c.numerator)) / mp.mpf(int(c.denominator))
        for i, e in enumerate(mon):
            if e:
                t *= vals[names[i]] ** e
        tot += t
    return tot
