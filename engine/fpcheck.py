"""Bounded stand-in for the floating-point clauses ("to finite-difference grade in double", "no collapse of
accuracy just above the switch-over"): the proofs of this framework are over the reals, so rounding is out of
their reach.  Here the REAL double code (native harness, same scenario source) is run on sampled inputs of a path -
including the regimes around every small-angle switch-over - and every output is compared with the 150-digit
evaluation of the SAME traced expression on the SAME (double-rounded) inputs.  A relative deviation above the
property's tolerance is a decisive violation with a concrete, replayable input; everything else is reported as a
sampled stand-in and never counted as proved."""
import os
import random

import mpmath as mp

from . import build, numeval


def fp_samples(c, n=6, tries=360):
    rng = random.Random(20260927)     # fixed: the sampled inputs (and hence the recorded findings) do not depend on VERIF_SEED
    out, seen = [], set()
    for k in range(tries):
        vals = c.draw(rng, k)
        if c.sample_filter and not c.sample_filter(vals):
            continue
        # work with the double-rounded inputs: that is what the native code sees
        vals = {kk: mp.mpf(float(v)) for kk, v in vals.items()}
        try:
            if not numeval.DagEval(c.path, vals).follows_path():
                continue
        except (ZeroDivisionError, ValueError, TypeError):
            continue
        cls = k % 11
        if cls in seen and len(out) >= n // 2:
            continue
        seen.add(cls)
        out.append(vals)
        if len(out) >= n:
            break
    return out


def compare(rep, c, outputs, tol, label, n=6, sample_ok=None):
    """outputs: names of outputs to compare; sample_ok: optional predicate on the input values.  -> number of samples compared"""
    if not c.native or not c.native[0] or not os.path.exists(c.native[0]):
        return 0
    binary, scn = c.native
    samples = fp_samples(c, n)
    worst = (mp.mpf(0), None, None)
    done = 0
    for vals in samples:
        if sample_ok is not None and not sample_ok(vals):
            continue
        ev = numeval.DagEval(c.path, vals)
        exact = {}
        for name in outputs:
            o = c.path.outs.get(name)
            if o is None:
                continue
            try:
                exact[name] = [ev.node(i) for i in o.ids]
            except (ZeroDivisionError, ValueError, TypeError, KeyError):
                continue      # (KeyError: the output is the result of the stubbed LU inverse - no exact value to compare with)
        if not exact:
            continue
        outs, thrown = build.run_native(binary, scn, {k: float(v) for k, v in vals.items()}, os.path.join(build.BUILD, "tmp"))
        if thrown:
            continue
        done += 1
        for name, ex in exact.items():
            if name not in outs:
                continue
            nat = outs[name][2]
            if len(nat) != len(ex):
                continue
            scale = max([mp.mpf(1)] + [abs(x) for x in ex])
            for i, (a, b) in enumerate(zip(nat, ex)):
                if a != a or abs(a) > 1e300:
                    err = mp.mpf("1e300")
                else:
                    err = abs(mp.mpf(a) - b) / scale
                if err > worst[0]:
                    worst = (err, name, (i, a, mp.nstr(b, 17), vals))
    name = "%s/%s/double_vs_exact" % (c.label, label)
    if worst[0] > tol:
        i, a, b, vals = worst[2]
        rp = c.make_replay(vals)
        rp["failing_input_reproduced"] = True
        rp["output"] = worst[1]
        rp["entry"] = i
        rp["double_value"] = a
        rp["exact_value_of_the_same_expression"] = b
        rep.fail(name, "FP", "native double vs 150-digit evaluation", {
            "path": c.path.key, "relative_error": mp.nstr(worst[0], 5), "tolerance": tol, "output": worst[1], "entry": i,
            "double_value": a, "exact_value": b,
            "note": "the formula is correct over the reals (see the proof obligations of this path); the double evaluation loses accuracy (cancellation)"},
            rp)
    elif done:
        rep.standin(name, "FP", "native double vs 150-digit evaluation (sampled)",
                    {"path": c.path.key, "samples": done, "max_relative_error": mp.nstr(worst[0], 5), "tolerance": tol})
    return done
