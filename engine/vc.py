"""Verification-condition layer: one PathCtx per (scenario path, precondition).

  * preconditions (validity of group inputs) become ideal generators,
  * the path's decisions are checked for feasibility (normal form first, z3
    only when an obligation fails or the path throws),
  * `eq` discharges matrix equalities entry-wise by normal form; a non-zero
    remainder is turned into a *concrete failing input* by high-precision
    evaluation on sampled inputs that follow the path (and replayed on the real
    double code), or reported as undecided when no sample separates the sides.
"""
import os
import random
import time
from fractions import Fraction

import mpmath as mp
import numpy as np

from . import numeval, smt
from .alg import Alg, EngineError
from .core import Undecided

TOL_EXACT = mp.mpf(10) ** (-30)


class Inp:
    def __init__(self, prefix, kind, spec=None, n=None):
        self.prefix, self.kind, self.spec, self.n = prefix, kind, spec, n

    def size(self):
        if self.kind == "G":
            return self.spec.rep
        if self.kind == "T":
            return self.spec.dof
        if self.kind == "P":
            return self.spec.dim
        return self.n

    def names(self):
        return [self.prefix + str(i) for i in range(self.size())]


# ---------------------------------------------------------------- sampling
def _rand_unit(rng, n):
    while True:
        v = [mp.mpf(rng.uniform(-1, 1)) for _ in range(n)]
        s = mp.sqrt(sum(x * x for x in v))
        if s > mp.mpf("0.05"):
            return [x / s for x in v]


def sample_group(spec_name, rng, regime, ang=None):
    """list of mp values for a valid element of the named group (ang: prescribed half-angle magnitude)"""
    big = [1, 1, 1, 1e3, 1e-3][regime % 5]
    lin = lambda k: [mp.mpf(rng.uniform(-3, 3)) * big for _ in range(k)]

    def quat():
        if ang is not None:
            u = _rand_unit(rng, 3)
            sgn = rng.choice([-1, 1])
            return [x * mp.sin(ang) for x in u] + [sgn * mp.cos(ang)]
        if regime % 11 == 9 or regime % 11 == 10:   # vector part around the small-angle switch-overs (|v|^2 ~ eps)
            mag = mp.mpf(10) ** mp.mpf(rng.uniform(-7.5, -6.2))
            u = _rand_unit(rng, 3)
            sgn = 1 if regime % 11 == 9 else -1
            v = [x * mag for x in u] + [sgn * mp.sqrt(1 - mag * mag)]
            return v
        if regime % 7 == 3:      # near identity
            v = [mp.mpf(rng.uniform(-1, 1)) * mp.mpf("1e-9") for _ in range(3)] + [mp.mpf(1)]
        elif regime % 7 == 4:    # w < 0 near -1
            v = [mp.mpf(rng.uniform(-1, 1)) * mp.mpf("1e-9") for _ in range(3)] + [mp.mpf(-1)]
        elif regime % 7 == 5:    # rotation close to pi
            v = [mp.mpf(rng.uniform(-1, 1)) for _ in range(3)] + [mp.mpf(rng.uniform(-1, 1)) * mp.mpf("1e-7")]
        else:
            v = [mp.mpf(rng.uniform(-1, 1)) for _ in range(4)]
        s = mp.sqrt(sum(x * x for x in v))
        return [x / s for x in v]

    def cplx():
        if ang is not None:
            a = ang * rng.choice([-1, 1])
            return [mp.cos(a), mp.sin(a)]
        if regime % 11 == 9 or regime % 11 == 10:
            a = mp.mpf(10) ** mp.mpf(rng.uniform(-7.5, -6.2)) * rng.choice([-1, 1])
            return [mp.cos(a), mp.sin(a)]
        if regime % 7 == 3:
            a = mp.mpf(rng.uniform(-1, 1)) * mp.mpf("1e-9")
        elif regime % 7 == 5:
            a = mp.pi - mp.mpf(rng.uniform(0, 1)) * mp.mpf("1e-7")
        else:
            a = mp.mpf(rng.uniform(-3.1415, 3.1415))
        return [mp.cos(a), mp.sin(a)]

    if spec_name == "SO2":
        return cplx()
    if spec_name == "SE2":
        return lin(2) + cplx()
    if spec_name == "SO3":
        return quat()
    if spec_name == "SE3":
        return lin(3) + quat()
    if spec_name == "SE_2_3":
        return lin(3) + quat() + lin(3)
    if spec_name == "SGal3":
        return lin(3) + quat() + lin(3) + lin(1)
    if spec_name.startswith("R") and spec_name[1:].isdigit():
        return lin(int(spec_name[1:]))
    raise KeyError(spec_name)


def sample_spec_group(spec, rng, regime, ang=None):
    if hasattr(spec, "elems"):
        out = []
        for e in spec.elems:
            out += sample_spec_group(e, rng, regime, ang)
        return out
    return sample_group(spec.name, rng, regime, ang)


ANG_SLOTS = {"SO2": [0], "SE2": [2], "SO3": [0, 1, 2], "SE3": [3, 4, 5], "SE_2_3": [3, 4, 5],
             "SGal3": [6, 7, 8]}


def sample_spec_tangent(spec, rng, regime, ang=None):
    if hasattr(spec, "elems"):
        out = []
        for e in spec.elems:
            out += sample_spec_tangent(e, rng, regime, ang)
        return out
    ang_scale = [mp.mpf(1), mp.mpf("1e-4"), mp.mpf("3e-8"), mp.mpf(0), mp.mpf("0.9"), mp.mpf("1e-9")][regime % 6]
    if regime % 11 == 9 or regime % 11 == 10:       # around the small-angle switch-overs
        ang_scale = mp.mpf(10) ** mp.mpf(rng.uniform(-7.3, -3.6))
    lin_scale = [1, 1, 1e3, 1][(regime // 6) % 4]
    v = [mp.mpf(rng.uniform(-1, 1)) * lin_scale for _ in range(spec.dof)]
    slots = ANG_SLOTS.get(spec.name, [])
    if slots:
        u = _rand_unit(rng, len(slots)) if len(slots) > 1 else [mp.mpf(rng.choice([-1, 1]))]
        mag = ang_scale * (mp.mpf(rng.uniform(0.3, 3.0)) if regime % 6 != 4 else mp.mpf(rng.uniform(0.5, 3.4)))
        if ang is not None:
            mag = ang
        for s, ui in zip(slots, u):
            v[s] = ui * mag
    return v


# hook set by contracts/taylor.py: prover(ctx, margin_polynomial, decision) -> True when the tracer's assumed answer to a
# validity test ("within the threshold") follows from the precondition and the path's other decisions
ASSUMPTION_PROVER = None


class PathCtx:
    def __init__(self, rep, label, path, inputs, native=None, seed=0, exact_valid=True):
        """rep: core.Report; label: obligation prefix; inputs: list of Inp;
        native: (binary, scenario) for replay on the real double code"""
        self.rep, self.label, self.path, self.inputs = rep, label, path, inputs
        self.native = native
        self.seed = seed
        extra = []
        for i in inputs:
            extra += i.names()
        self.alg = Alg(path, extra_vars=extra)
        self.E = {}
        for i in inputs:
            self.E[i.prefix] = np.array([self.alg.v(n) for n in i.names()], dtype=object)
            if i.kind == "G" and exact_valid:
                for e in i.spec.valid_eqs(self.E[i.prefix]):
                    self.alg.add_relation(e)
        self._feasible = None
        self._samples = None
        self.extra_facts = []        # z3 facts (inequality preconditions)
        self.sample_filter = None

    # ---- symbolic access
    def out(self, name):
        return self.alg.out(name)

    def vec(self, name):
        return self.alg.out(name).reshape(-1)

    def has_out(self, name):
        return name in self.path.outs

    # ---- feasibility
    def nf_feasible(self):
        """False if the normal form alone refutes a decision; else True (= maybe)"""
        alg = self.alg
        for d in self.path.decisions:
            p = alg.nf(alg.P(d.b) - alg.P(d.a))
            if p.is_ground:
                c = alg.const_value(p)
                truth = (c > 0) if d.rel == "lt" else (c == 0)
                if truth != d.val:
                    if d.is_const == 2:
                        raise Undecided("%s: auto-valid assumption contradicted on path %s (a normalisation test that the tracer "
                                        "answered 'within threshold' is false under the precondition)" % (self.label, self.path.key))
                    return False
            elif d.is_const == 2 and ASSUMPTION_PROVER is not None and ASSUMPTION_PROVER(self, p, d):
                # the assumed answer is implied by the precondition and the earlier decisions (interval bound)
                key = "%s/assumed_validity_test_holds" % self.label
                if key not in self.__dict__.setdefault("_av_proved", set()):
                    self._av_proved.add(key)
                    self.rep.ok("%s[%d]" % (key, len(self._av_proved)), "TAYLOR", "interval-bound",
                                detail={"path": self.path.key, "margin": str(p)[:160]})
            elif d.is_const == 2 and not getattr(self, "_av_noted", False):
                # the tracer assumed "within the validity threshold" but the normal form cannot prove it
                # (e.g. a small-angle exp is unit-norm only up to O(theta^2)): what is proved on this path
                # holds for the inputs that take it; the sibling branch was not explored -> labelled stand-in
                self._av_noted = True
                self.rep.standin("%s/sibling_of_assumed_validity_test" % self.label, "FEAS", "not-explored",
                                 {"path": self.path.key, "assumed": "|x-1| within eps", "unproved_margin": str(p)[:160]})
        return True

    def feasible(self, timeout_ms=3000):
        """'no' (proved infeasible: nf or z3 unsat), 'yes' (z3 sat) or 'maybe'"""
        if self._feasible is False or not self.nf_feasible():
            self._feasible = False
            return "no"
        if not self.path.decisions:
            return "yes"
        try:
            r, model, dt = self.z3_feasible(timeout_ms)
        except Exception:
            return "maybe"
        self.z3_time = getattr(self, "z3_time", 0.0) + dt
        if r == "unsat":
            self._feasible = False
            return "no"
        return "yes" if r == "sat" else "maybe"

    def z3_feasible(self, timeout_ms=4000):
        # one query per context: the answer for a path does not change (new atoms only add definitions)
        if getattr(self, "_z3res", None) is not None:
            return self._z3res[0], self._z3res[1], 0.0
        r, model, dt = self._z3_feasible(timeout_ms)
        self._z3res = (r, model)
        return r, model, dt

    def _z3_feasible(self, timeout_ms):
        z = smt.Z3Ctx(self.alg, timeout_ms)
        dec = z.decisions(self.path)          # first: converting the decisions may create atoms
        extra = self.extra_facts_z3(z)
        cs = z.base_constraints(extra) + dec
        r, model, dt = z.check(cs)
        return r, model, dt

    def extra_facts_z3(self, z):
        return [f(z) for f in self.extra_facts]

    # ---- sampling of inputs that follow this path
    def draw(self, rng, regime, ang=None):
        vals = {}
        for i in self.inputs:
            if i.kind == "G":
                v = sample_spec_group(i.spec, rng, regime, ang)
            elif i.kind == "T":
                v = sample_spec_tangent(i.spec, rng, regime, ang)
            elif i.kind == "U":
                v = _rand_unit(rng, i.size())
            else:
                v = [mp.mpf(rng.uniform(-2, 2)) for _ in range(i.size())]
            for n, x in zip(i.names(), v):
                vals[n] = x
        return vals

    def samples(self, want=3, tries=240):
        if self._samples is not None:
            return self._samples
        rng = random.Random(self.seed * 7919 + 17)
        out = []
        for k in range(tries):
            vals = self.draw(rng, k)
            if self.sample_filter and not self.sample_filter(vals):
                continue
            ev = numeval.DagEval(self.path, vals)
            if ev.follows_path():
                out.append(vals)
                if len(out) >= want:
                    break
        if not out:
            out = self.boundary_samples(want=2)
        if not out and self.path.decisions:
            try:
                r, model, dt = self.z3_feasible(5000)
            except Exception:
                r, model = "unknown", None
            if r == "sat" and model:
                vals = self.project_model(model)
                if vals is not None and numeval.DagEval(self.path, vals).follows_path():
                    out.append(vals)
        self._samples = out
        return out

    def boundary_samples(self, want=2):
        """inputs on or next to a threshold.  Along a ray (random direction, angle magnitude s) record
        which decision of THIS path is violated first; wherever that changes between two scales,
        bisect both sides down to 1e-120 relative width.  End points of the refinement that follow
        the path are returned - this reaches measure-zero boundaries (a == b) and shells that are
        far thinner than any random sampler can hit."""
        out = []
        tol_eq = mp.mpf(10) ** (-100)

        def first_violation(vals):
            try:
                ev = numeval.DagEval(self.path, vals)
                for k, d in enumerate(self.path.decisions):
                    a, b = ev.node(d.a), ev.node(d.b)
                    if abs(a - b) <= tol_eq * (1 + abs(a) + abs(b)):
                        continue
                    v = (a < b) if d.rel == "lt" else (a == b)
                    if bool(v) != d.val:
                        return k
                return -1
            except (ZeroDivisionError, ValueError):
                return -2

        for k in range(6):
            seed = self.seed * 104729 + k

            def at(s):
                rng = random.Random(seed)
                vals = self.draw(rng, 0, ang=s)
                if self.sample_filter and not self.sample_filter(vals):
                    return -3, vals
                return first_violation(vals), vals

            grid = [mp.mpf(10) ** (mp.mpf(-9) + mp.mpf(j) / 6) for j in range(0, 58)]
            pts = [(s,) + at(s) for s in grid]
            found = [p for p in pts if p[1] == -1]
            if found:
                out.append(found[0][2])
            else:
                stack = [(pts[i], pts[i + 1]) for i in range(len(pts) - 1) if pts[i][1] != pts[i + 1][1]]
                budget = 4000
                while stack and budget > 0 and not found:
                    (lo, hi) = stack.pop()
                    if (hi[0] - lo[0]) <= lo[0] * mp.mpf(10) ** (-120):
                        continue
                    mid = (lo[0] + hi[0]) / 2
                    g, vals = at(mid)
                    budget -= 1
                    m = (mid, g, vals)
                    if g == -1:
                        found.append(m)
                        break
                    if g != hi[1]:
                        stack.append((m, hi))
                    if g != lo[1]:
                        stack.append((lo, m))
                if found:
                    out.append(found[0][2])
            if len(out) >= want:
                break
        return out

    def project_model(self, model, angles=False):
        """turn a z3 model into an input satisfying the precondition exactly (re-normalise rotation parts);
        angles=True: a variable that is the argument of a sin/cos generator pair takes the angle of the
        model's (sin, cos) values"""
        vals = {}
        ang = {}
        if angles:
            alg = self.alg
            names = list(alg.gen.keys())
            for (sn, cn) in alg.trig_gens:
                a = alg.gen_atom[sn][0].args[0]
                if len(a) == 1 and model.get(sn) is not None and model.get(cn) is not None:
                    (mon, coef), = a.items()
                    nz = [(i, e) for i, e in enumerate(mon) if e]
                    if len(nz) == 1 and nz[0][1] == 1 and names[nz[0][0]] in alg.var_names:
                        s_ = mp.mpf(model[sn].numerator) / mp.mpf(model[sn].denominator)
                        c_ = mp.mpf(model[cn].numerator) / mp.mpf(model[cn].denominator)
                        cf = mp.mpf(int(coef.numerator)) / mp.mpf(int(coef.denominator))
                        ang[names[nz[0][0]]] = mp.atan2(s_, c_) / cf
        for i in self.inputs:
            names = i.names()
            xs = []
            for n in names:
                m = model.get(n)
                xs.append(mp.mpf(m.numerator) / mp.mpf(m.denominator) if m is not None else mp.mpf(0))
            if i.kind == "G":
                from contracts import taylor
                rot = taylor._rot_names(i.spec, names)
                groups = {}
                # normalise each unit-norm block (blocks are contiguous runs of rotation names)
                run = []
                for k, n in enumerate(names + [None]):
                    if n in rot:
                        run.append(k)
                    elif run:
                        s = mp.sqrt(sum(xs[j] ** 2 for j in run))
                        if s == 0:
                            return None
                        for j in run:
                            xs[j] = xs[j] / s
                        run = []
            for n, x in zip(names, xs):
                vals[n] = ang.get(n, x)
        return vals

    # ---- obligations
    def eq(self, name, lhs, rhs, kind="ID", fn=None, numeric_env=None):
        """entry-wise lhs == rhs modulo the ideal.  lhs/rhs: numpy object arrays (same shape) or scalars."""
        alg = self.alg
        L = np.asarray(lhs, dtype=object)
        Rr = np.asarray(rhs, dtype=object)
        if L.shape != Rr.shape:
            samples = self.samples(want=1)
            replay = self.make_replay(samples[0]) if samples else {}
            replay["failing_input_reproduced"] = bool(samples)
            self.rep.fail("%s/%s/shape" % (self.label, name), kind, "dag",
                          {"path": self.path.key, "shape_of_result": list(L.shape), "shape_required_by_spec": list(Rr.shape)},
                          replay)
            return False
        poison = alg.poison_names()
        ok_all = True
        self.rep.check_budget()
        for idx in np.ndindex(L.shape):
            oname = "%s/%s%s" % (self.label, name, list(idx) if idx else "")
            t0 = time.time()
            try:
                res = alg.nf(L[idx] - Rr[idx])
            except EngineError as e:
                self.rep.undecide(oname, kind, "nf", str(e))
                ok_all = False
                continue
            dt = time.time() - t0
            if res.is_zero:
                self.rep.ok(oname, kind, "nf", dt,
                            detail={"path": self.path.key, "normal_form_of_lhs_minus_rhs": "0"})
                continue
            ok_all = False
            self._failed(oname, kind, res, dt, uses_poison=alg.uses_gens(L[idx], poison))
        return ok_all

    def _failed(self, oname, kind, res, dt, uses_poison=False):
        alg = self.alg
        if self._feasible is None:
            self._feasible = self.nf_feasible()
        if self._feasible is False:
            # path proven infeasible: the obligation is vacuous on it
            self.rep.ok(oname, kind, "nf(path infeasible)", dt)
            return
        tinfo = None
        tau = getattr(self, "taylor_tau", None)
        if tau:
            ok, tinfo = self.taylor_try(self, res, tau)
            # (no recognised small-ball condition: the interval bound is unavailable, the numeric
            #  classification below still uses the contract's tolerance)
            if ok:
                self.rep.ok(oname, "TAYLOR", "interval-bound", dt,
                            detail={"path": self.path.key, "tolerance": tau, "bound": tinfo})
                return
        samples = self.samples()
        worst = None
        for si, vals in enumerate(samples):
            try:
                ck = (si, alg.pool_used)
                cache = self.__dict__.setdefault("_gv_cache", {})
                if ck not in cache:
                    cache[ck] = numeval.gen_values(alg, vals)
                gv = cache[ck]
                r = numeval.poly_value(alg, res, gv)
            except (ZeroDivisionError, ValueError, TypeError):
                continue
            if tau:
                # tolerance relative to the size of the linear components of this input
                sc = max([mp.mpf(1)] + [abs(x) for x in vals.values()])
                r = r / sc
            if worst is None or abs(r) > abs(worst[0]):
                worst = (r, vals)
        resid = str(res)
        if len(resid) > 600:
            resid = resid[:600] + "...(%d terms)" % len(res)
        detail = {"path": self.path.key, "decisions": len(self.path.decisions),
                  "nonzero_normal_form": resid, "generators": alg.describe()}
        if tau:
            detail["taylor"] = tinfo
            detail["tolerance"] = tau
            if worst is not None and abs(worst[0]) <= tau:
                self.rep.standin(oname, "TAYLOR", "mpmath-sampled",
                                 {"path": self.path.key, "samples": len(samples), "tolerance": tau,
                                  "max_relative_residual": mp.nstr(abs(worst[0]), 5),
                                  "why_not_proved": tinfo})
                return
        if worst is not None and abs(worst[0]) > TOL_EXACT:
            detail["numeric_residual"] = mp.nstr(worst[0], 8)
            replay = self.make_replay(worst[1])
            replay["failing_input_reproduced"] = True
            self.rep.fail(oname, kind, "nf+mpmath", detail, replay, dt)
            return
        if worst is not None:
            # identity holds numerically to 1e-30 on sampled points: normal form incomplete
            if os.environ.get("VERIF_DEBUG"):
                print("DEBUG", oname, resid, alg.describe())
            self.rep.undecide(oname, kind, "nf", "non-zero remainder but numerically zero on %d samples "
                              "(normal form incomplete)" % len(samples))
            return
        # no sample follows the path: decide feasibility with z3
        r, model, zdt = self.z3_feasible()
        if r == "unsat":
            self._feasible = False
            self.rep.ok(oname, kind, "z3(path infeasible)", zdt)
            return
        if os.environ.get("VERIF_DEBUG"):
            print("DEBUG", oname, resid, alg.describe())
        # neither proved nor refuted: no input reaching this path could be constructed (random regimes,
        # threshold bisection, solver model) and its feasibility is not decided -> labelled stand-in
        self.rep.standin(oname, kind, "unreached-path",
                         {"path": self.path.key, "z3_feasibility": r,
                          "why_not_proved": "non-zero normal form on a path that no constructed input follows"})

    # ---- derivative obligations
    def directions(self, wrt):
        """list of (k, direction dict) for input prefix `wrt`: unit tangent directions
        lifted to coefficient space for group inputs, plain unit vectors otherwise"""
        inp = [i for i in self.inputs if i.prefix == wrt][0]
        R = self.alg.R
        out = []
        if inp.kind == "G":
            n = inp.spec.dof
            for k in range(n):
                d = [R.zero] * n
                d[k] = R.one
                cd = inp.spec.lift(self.E[wrt], d)
                out.append((k, dict(zip(inp.names(), cd))))
        else:
            for k, nm in enumerate(inp.names()):
                out.append((k, {nm: R.one}))
        return out

    def D(self, direction, arr):
        Df = self.alg.make_diff(direction)
        A = np.asarray(arr, dtype=object)
        out = np.empty(A.shape, dtype=object)
        for idx in np.ndindex(A.shape):
            out[idx] = Df(A[idx])
        return out

    def deriv_group(self, name, out_coeffs, J, wrt, out_spec=None, kind="DERIV"):
        """J is the right-Jacobian of (wrt -> group-valued out):
           D T(out)[dir_k] == T(out) * hat(J e_k)   for every tangent basis direction k"""
        sp = out_spec or self.spec
        Tout = sp.T(out_coeffs)
        ok = True
        for k, direction in self.directions(wrt):
            lhs = self.D(direction, Tout)
            rhs = np.dot(Tout, sp.hat_h(list(J[:, k])))
            ok &= self.eq("%s/d%s%d" % (name, wrt, k), lhs, rhs, kind)
        return ok

    def inverse_stub_of(self, out_name):
        """if output `out_name` is exactly the result X of a stubbed Eigen inverse (A-EIGEN-INV:
        M*X = I for det M != 0), return the polynomial matrix M, else None"""
        o = self.path.outs.get(out_name)
        if o is None:
            return None
        for (n, mids, xids) in self.path.invs:
            if o.rows == n and o.cols == n and list(o.ids) == list(xids):
                M = np.empty((n, n), dtype=object)
                for cc in range(n):
                    for rr in range(n):
                        M[rr, cc] = self.alg.P(mids[cc * n + rr])
                return M
        return None

    def deriv_vec(self, name, out_vec, J, wrt, kind="DERIV", J_inverse_of=None):
        """J is the Jacobian of (wrt -> vector-valued out): D out[dir_k] == J e_k.
        If J is the stubbed inverse of a matrix M (J_inverse_of=M) the equivalent obligation
        M * D out[dir_k] == e_k is discharged instead (M invertible: A-EIGEN-INV)."""
        ok = True
        ov = np.asarray(out_vec, dtype=object).reshape(-1)
        R = self.alg.R
        for k, direction in self.directions(wrt):
            lhs = self.D(direction, ov)
            if J_inverse_of is not None:
                ek = np.array([R.one if i == k else R.zero for i in range(len(ov))], dtype=object)
                ok &= self.eq("%s/d%s%d" % (name, wrt, k), np.dot(J_inverse_of, lhs), ek, kind)
            else:
                ok &= self.eq("%s/d%s%d" % (name, wrt, k), lhs, np.asarray(J[:, k], dtype=object).reshape(-1), kind)
        return ok

    def lift_is_sound(self, name, wrt):
        """the infinitesimal lift used above is itself an obligation:
           D T(c)[lift(c, e_k)] == T(c) * hat(e_k)"""
        inp = [i for i in self.inputs if i.prefix == wrt][0]
        sp = inp.spec
        Tc = sp.T(self.E[wrt])
        R = self.alg.R
        ok = True
        for k, direction in self.directions(wrt):
            d = [R.zero] * sp.dof
            d[k] = R.one
            ok &= self.eq("%s/lift%d" % (name, k), self.D(direction, Tc), np.dot(Tc, sp.hat_h(d)), "DERIV")
        return ok

    def must_not_throw(self, name="no_throw", kind="SAFE"):
        """a path that throws must be infeasible under the precondition"""
        oname = "%s/%s" % (self.label, name)
        if not self.path.thrown:
            return True
        t0 = time.time()
        if not self.nf_feasible():
            self.rep.ok(oname, kind, "nf", time.time() - t0,
                        detail={"path": self.path.key, "throwing path infeasible": self.path.thrown})
            return False
        samples = self.samples(want=1)
        if samples:
            replay = self.make_replay(samples[0])
            replay["failing_input_reproduced"] = True
            self.rep.fail(oname, kind, "mpmath", {"path": self.path.key, "thrown": self.path.thrown}, replay)
            return False
        r, model, dt = self.z3_feasible()
        if r == "unsat":
            self.rep.ok(oname, kind, "z3", dt, detail={"path": self.path.key, "throwing path infeasible": self.path.thrown})
            return False
        if r == "sat":
            self.rep.fail(oname, kind, "z3", {"path": self.path.key, "thrown": self.path.thrown,
                                              "model": {k: str(v) for k, v in (model or {}).items()}},
                          {"failing_input_reproduced": False, "scenario": self.path.scenario})
            return False
        self.rep.undecide(oname, kind, "z3", "feasibility of throwing path unknown")
        return False

    def check_safe(self, name="safe", timeout_ms=8000):
        """SAFE: under the precondition and this path's condition every denominator is non-zero, every
        sqrt argument non-negative, no atan2 at the origin (so every value computed is a finite real)"""
        import z3
        alg = self.alg
        seen = set()
        ok = True
        for (what, p) in list(alg.safe_obligations):
            key = (what, str(p))
            if key in seen:
                continue
            seen.add(key)
            oname = "%s/%s/%s" % (self.label, name, what + "_" + str(len(seen)))
            q = alg.nf(p)
            if q.is_ground:
                cv = alg.const_value(q)
                good = (cv != 0) if what != "sqrt_arg_nonneg" else (cv >= 0)
                if good:
                    self.rep.ok(oname, "SAFE", "nf")
                    continue
            sg = alg.sign_of(q)
            if what == "sqrt_arg_nonneg" and sg == 1:
                self.rep.ok(oname, "SAFE", "sign")
                continue
            z = smt.Z3Ctx(alg, timeout_ms)
            dec = z.decisions(self.path)
            e = z.expr(q)
            cs = z.base_constraints(self.extra_facts_z3(z), without_inverses=True) + dec
            cs.append(e < 0 if what == "sqrt_arg_nonneg" else e == 0)
            r, model, dt = z.check(cs)
            if r == "unsat":
                self.rep.ok(oname, "SAFE", "z3", dt, detail={"path": self.path.key, "cannot_vanish": str(q)[:200]})
            elif r == "sat":
                vals = self.project_model(model, angles=True) if model else None
                replay = self.make_replay(vals) if vals else {}
                hit = False
                if vals:
                    try:
                        gv = numeval.gen_values(alg, vals)
                        qv = numeval.poly_value(alg, q, gv)
                        hit = (qv < 0) if what == "sqrt_arg_nonneg" else abs(qv) < mp.mpf(10) ** (-12)
                    except (ZeroDivisionError, ValueError, TypeError):
                        hit = True     # evaluating the generators already divides by zero at this input
                    no = replay.get("native_outputs") or {}
                    bad = any((x != x or abs(x) > 1e300) for vs_ in no.values() for x in vs_)
                    replay["native_output_non_finite"] = bad
                    hit = hit and (bad or not no)
                replay["failing_input_reproduced"] = bool(hit)
                self.rep.fail(oname, "SAFE", "z3", {"path": self.path.key, "what": what, "expression": str(q)[:300],
                                                    "model": {k: str(x) for k, x in (model or {}).items() if x is not None}},
                              replay, dt)
                ok = False
            else:
                self.rep.standin(oname, "SAFE", "z3-unknown", {"path": self.path.key, "what": what, "expression": str(q)[:200]})
        return ok

    def no_poison(self, name, arr, kind="FRAME"):
        """every cell of arr was written (no poison / undefined cell reaches the output)"""
        alg = self.alg
        poison = alg.poison_names()
        A = np.asarray(arr, dtype=object)
        bad = [idx for idx in np.ndindex(A.shape) if alg.uses_gens(A[idx], poison)]
        oname = "%s/%s" % (self.label, name)
        if not bad:
            self.rep.ok(oname, kind, "dag")
            return True
        if self._feasible is None:
            self._feasible = self.nf_feasible()
        if self._feasible is False:
            self.rep.ok(oname, kind, "nf(path infeasible)")
            return True
        samples = self.samples(want=1)
        replay = self.make_replay(samples[0]) if samples else {"failing_input_reproduced": False}
        if samples:
            replay["failing_input_reproduced"] = True
        self.rep.fail(oname, kind, "dag", {"path": self.path.key, "unwritten_or_undefined_cells": [list(b) for b in bad][:20]}, replay)
        return False

    # ---- replay on the real code
    def make_replay(self, vals):
        rp = {"scenario": self.path.scenario, "path": self.path.key,
              "input": {k: float(v) for k, v in vals.items()},
              "input_exact": {k: mp.nstr(v, 40) for k, v in vals.items()}}
        if self.native:
            from . import build
            binary, scn = self.native
            if binary and os.path.exists(binary):
                outs, thrown = build.run_native(binary, scn, rp["input"], os.path.join(build.BUILD, "tmp"))
                rp["native_binary"] = binary
                rp["native_outputs"] = {k: v[2] for k, v in outs.items()}
                rp["native_thrown"] = thrown
                rp["native_cmd"] = "%s %s <input file>" % (binary, scn)
        return rp
