"""Build harness binaries from /repo's *current working tree* (content-addressed
cache under /verif/.build; a changed header gives a new key, so nothing stale is
ever reused) and run scenarios."""
import hashlib
import os
import subprocess
import sys
import time
from concurrent.futures import ThreadPoolExecutor

from . import trace

VERIF = os.path.dirname(os.path.dirname(os.path.abspath(__file__)))
REPO = os.environ.get("VERIF_REPO", "/repo")
BUILD = os.path.join(VERIF, ".build")
VSYM = os.path.join(VERIF, "vsym")
CXX = os.environ.get("VERIF_CXX", "g++")
BASE_FLAGS = ["-std=c++11", "-O0", "-w",
              "-I" + os.path.join(REPO, "include"), "-I" + os.path.join(REPO, "external", "tl"),
              "-I/usr/include/eigen3", "-I" + VSYM]

_tree_hash = None


def _hash_tree(root, exts=(".h", ".hpp", ".cpp")):
    h = hashlib.sha256()
    for d, dirs, files in sorted(os.walk(root)):
        dirs.sort()
        for f in sorted(files):
            if f.endswith(exts):
                p = os.path.join(d, f)
                h.update(os.path.relpath(p, root).encode())
                with open(p, "rb") as fh:
                    h.update(hashlib.sha256(fh.read()).digest())
    return h.hexdigest()


def tree_hash():
    global _tree_hash
    if _tree_hash is None:
        h = hashlib.sha256()
        h.update(_hash_tree(os.path.join(REPO, "include")).encode())
        h.update(_hash_tree(os.path.join(REPO, "external", "tl")).encode())
        h.update(_hash_tree(VSYM).encode())
        _tree_hash = h.hexdigest()[:16]
    return _tree_hash


class BuildError(Exception):
    def __init__(self, target, output):
        Exception.__init__(self, "build of %s failed" % target)
        self.target, self.output = target, output


class Target:
    def __init__(self, name, source, defines=(), native=False, assertions=True):
        self.name, self.source = name, source
        self.defines = list(defines)
        self.native = native
        self.assertions = assertions

    @property
    def key(self):
        s = "|".join([self.name, self.source, ",".join(self.defines), str(self.native), str(self.assertions)])
        return hashlib.sha256(s.encode()).hexdigest()[:10]

    @property
    def path(self):
        return os.path.join(BUILD, tree_hash(), "%s_%s%s" % (self.name, self.key, "_native" if self.native else ""))

    def cmd(self):
        c = [CXX] + BASE_FLAGS + ["-D" + d for d in self.defines]
        if self.native:
            c.append("-DVS_NATIVE")
        if not self.assertions:
            c.append("-DNDEBUG")
        c += [os.path.join(VSYM, self.source), "-o", self.path]
        return c


def build_one(t):
    if os.path.exists(t.path):
        return t.path, 0.0, True
    os.makedirs(os.path.dirname(t.path), exist_ok=True)
    t0 = time.time()
    tmp = t.path + ".tmp%d" % os.getpid()
    cmd = t.cmd()
    cmd[-1] = tmp
    p = subprocess.run(cmd, stdout=subprocess.PIPE, stderr=subprocess.STDOUT, text=True)
    if p.returncode != 0:
        if os.path.exists(tmp):
            os.unlink(tmp)
        raise BuildError(t.name, p.stdout)
    os.replace(tmp, t.path)
    return t.path, time.time() - t0, False


def build_all(targets, jobs=None):
    """-> dict name -> (path | BuildError)"""
    jobs = jobs or int(os.environ.get("VERIF_JOBS", "16"))
    out = {}

    def one(t):
        try:
            return t.name, build_one(t)[0]
        except BuildError as e:
            return t.name, e

    with ThreadPoolExecutor(max_workers=jobs) as ex:
        for name, res in ex.map(one, targets):
            out[name] = res
    return out


def clean_old(keep=4, min_age_s=4 * 3600):
    """remove stale cache directories (older tree hashes); never one that may still be in use"""
    if not os.path.isdir(BUILD):
        return
    ds = [os.path.join(BUILD, d) for d in os.listdir(BUILD) if len(d) == 16]
    ds.sort(key=lambda d: os.path.getmtime(d), reverse=True)
    import shutil
    now = time.time()
    for d in ds[keep:]:
        if now - os.path.getmtime(d) > min_age_s:
            shutil.rmtree(d, ignore_errors=True)


def run_scenarios(binary, scenarios, env=None):
    """-> (paths, done) parsed"""
    e = dict(os.environ)
    if env:
        e.update(env)
    if os.environ.get("VERIF_TIER") == "thorough" or os.environ.get("VS_THOROUGH"):
        e.setdefault("VS_MAX_PATHS", "200000")
    p = subprocess.run([binary] + list(scenarios), stdout=subprocess.PIPE, stderr=subprocess.PIPE, text=True, env=e)
    if p.returncode != 0:
        raise RuntimeError("harness %s %s failed (%d): %s" % (binary, scenarios, p.returncode, p.stderr[-2000:]))
    return trace.parse(p.stdout)


def list_scenarios(binary):
    p = subprocess.run([binary, "--list"], stdout=subprocess.PIPE, text=True)
    return p.stdout.split()


def run_native(binary, scenario, values, workdir):
    """run a native (double) harness on concrete input values; -> dict out name -> (rows, cols, [floats]), thrown"""
    os.makedirs(workdir, exist_ok=True)
    f = os.path.join(workdir, "native_in_%d.txt" % os.getpid())
    with open(f, "w") as fh:
        for k, v in values.items():
            fh.write("%s %s\n" % (k, repr(float(v))))
    p = subprocess.run([binary, scenario, f], stdout=subprocess.PIPE, stderr=subprocess.PIPE, text=True)
    os.unlink(f)
    outs, thrown = {}, None
    for line in p.stdout.splitlines():
        if line.startswith("o "):
            fs = line.split(" ")
            outs[fs[1]] = (int(fs[2]), int(fs[3]), [float(x) for x in fs[4:]])
        elif line.startswith("x "):
            thrown = line[2:]
    if p.returncode != 0:
        thrown = "native harness exit %d: %s" % (p.returncode, p.stderr[-500:])
    return outs, thrown
