"""Parse the line-oriented path dumps written by vsym/harness.h."""
from fractions import Fraction
import re


class Node:
    __slots__ = ("id", "op", "a", "b", "const", "name")

    def __init__(self, id, op, a=-1, b=-1, const=None, name=None):
        self.id, self.op, self.a, self.b, self.const, self.name = id, op, a, b, const, name

    def __repr__(self):
        return "Node(%d,%s,%s,%s,%s,%s)" % (self.id, self.op, self.a, self.b, self.const, self.name)


class Decision:
    __slots__ = ("rel", "a", "b", "val", "is_const")

    def __init__(self, rel, a, b, val, is_const):
        self.rel, self.a, self.b, self.val, self.is_const = rel, a, b, val, is_const


class Out:
    __slots__ = ("name", "rows", "cols", "ids")

    def __init__(self, name, rows, cols, ids):
        self.name, self.rows, self.cols, self.ids = name, rows, cols, ids

    def at(self, r, c=0):
        return self.ids[c * self.rows + r]


class Path:
    def __init__(self, scenario, script):
        self.scenario = scenario
        self.script = script
        self.nodes = {}
        self.decisions = []
        self.outs = {}
        self.out_order = []
        self.ints = {}
        self.rands = []
        self.invs = []
        self.thrown = None

    @property
    def key(self):
        return "%s[%s]" % (self.scenario, self.script)


def _hexfloat(s):
    return Fraction(float.fromhex(s))


def parse(text):
    """-> (list of Path, dict scenario -> reported path count)"""
    paths, done = [], {}
    cur = None
    for line in text.splitlines():
        if not line:
            continue
        tag = line[0]
        if line.startswith("PATH "):
            _, scn, script = line.split(" ")
            cur = Path(scn, "" if script == "-" else script)
        elif line == "END":
            paths.append(cur)
            cur = None
        elif line.startswith("DONE "):
            _, scn, n = line.split(" ")
            done[scn] = int(n)
        elif tag == "n":
            f = line.split(" ")
            nid, op = int(f[1]), f[2]
            if op == "const":
                n, d = f[3].split("/")
                cur.nodes[nid] = Node(nid, "const", const=Fraction(int(n), int(d)))
            elif op == "constd":
                cur.nodes[nid] = Node(nid, "const", const=_hexfloat(f[3]))
            elif op in ("var", "poison"):
                cur.nodes[nid] = Node(nid, op, name=f[3])
            elif op == "undef":
                cur.nodes[nid] = Node(nid, "undef")
            else:
                a = int(f[3])
                b = int(f[4]) if len(f) > 4 else -1
                cur.nodes[nid] = Node(nid, op, a, b)
        elif tag == "d":
            f = line.split(" ")
            cur.decisions.append(Decision(f[1], int(f[2]), int(f[3]), f[4] == "1", int(f[5])))
        elif tag == "o":
            f = line.split(" ")
            o = Out(f[1], int(f[2]), int(f[3]), [int(x) for x in f[4:]])
            cur.outs[o.name] = o
            cur.out_order.append(o.name)
        elif tag == "k":
            f = line.split(" ")
            cur.ints[f[1]] = int(f[2])
        elif tag == "r":
            f = line.split(" ")
            cur.rands.append((int(f[1]), int(f[2]), int(f[3])))
        elif tag == "i":
            f = [int(x) for x in line.split(" ")[1:]]
            n = f[0]
            cur.invs.append((n, f[1:1 + n * n], f[1 + n * n:1 + 2 * n * n]))
        elif tag == "x":
            cur.thrown = line[2:]
        else:
            raise ValueError("bad trace line: " + line)
    return paths, done
