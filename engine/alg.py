"""Per-path algebra: every DAG node becomes a polynomial over QQ in the input
variables and in *atom generators* (sin/cos pairs, square roots, inverses of
denominators, atan2, abs ...).  The atoms' defining equations and the
contract's precondition equalities generate an ideal; `nf` is the normal form
modulo a Groebner basis of that ideal, so `nf(lhs - rhs) == 0` is a proof of
`pre /\\ path ==> lhs == rhs` over the reals (remainder 0 is sound for any
generating set; the Groebner completion is only needed for completeness).
"""
from fractions import Fraction
import math
import time

from sympy.polys.rings import ring as _ring
from sympy.polys.domains import QQ
from sympy.polys.orderings import grevlex
from sympy.polys.groebnertools import groebner as _groebner


import heapq


def _negkey(k):
    """negated grevlex key (sum, reversed-negated exponents) so that heapq pops the largest monomial"""
    return (-k[0], tuple(-x for x in k[1]))


NF_EAGER = int(__import__("os").environ.get("VERIF_NF_EAGER", "12"))


class EngineError(Exception):
    """machinery problem (never a property violation) -> exit 2"""


def _q(x):
    if isinstance(x, Fraction):
        return QQ(x.numerator, x.denominator)
    return QQ(x)


class Atom:
    __slots__ = ("kind", "gens", "args", "info")

    def __init__(self, kind, gens, args, info=None):
        self.kind, self.gens, self.args, self.info = kind, gens, args, info


class Alg:
    POOL = 48

    def __init__(self, path, extra_vars=(), pool=None):
        self.path = path
        names = []
        seen = set()
        for n in path.nodes.values():
            if n.op in ("var", "poison") and n.name not in seen:
                seen.add(n.name)
                names.append(n.name)
        for v in extra_vars:
            if v not in seen:
                seen.add(v)
                names.append(v)
        self.var_names = list(names)
        self.npool = pool or self.POOL
        self.pool_names = ["g%d" % i for i in range(self.npool)]
        self.pool_used = 0
        names = self.pool_names + ["UNDEF", "DIVZERO"] + names  # atoms first (larger in the order)
        res = _ring(names, QQ, grevlex)
        self.R = res[0]
        self.gen = dict(zip(names, res[1:]))
        self.gen_index = {n: i for i, n in enumerate(names)}
        self.relations = []      # generators of the ideal
        self._gb = None
        self._rules = None
        self._gb_time = 0.0
        self.atoms = {}          # key -> Atom
        self.gen_atom = {}       # generator name -> (Atom, role)
        self.trig_bases = []     # (poly b, poly sin b, poly cos b)
        self.trig_gens = []      # (Sname, Cname) of generator pairs
        self.inv_gens = []       # (poly d (monic-normalised), gen name)
        self._inv_cache = {}
        self.node_poly = {}
        self.nonneg = []         # generator names known >= 0 (sqrt, abs)
        self.safe_obligations = []   # (what, poly) : poly must be != 0 / >= 0 etc.
        self.gen_desc = {}
        self.div_by_zero = False
        self.sign = {}           # generator name -> 'pos' | 'nonneg' | 'neg' | 'nonpos'  (contract / axiom facts)
        self.angle_ranges = []   # (poly a, kind) kind in {'first_quadrant': a in [0, pi/2), 'principal': a in (-pi, pi)}

    # ---- basic helpers
    def v(self, name):
        return self.gen[name]

    def const(self, c):
        return self.R.ground_new(_q(c))

    def is_const(self, p):
        return p.is_ground

    def const_value(self, p):
        if p.is_zero:
            return Fraction(0)
        c = p.LC
        return Fraction(int(c.numerator), int(c.denominator))

    def new_gen(self, desc):
        if self.pool_used >= self.npool:
            raise EngineError("generator pool exhausted")
        name = self.pool_names[self.pool_used]
        self.pool_used += 1
        self.gen_desc[name] = desc
        return name

    def add_relation(self, p):
        if p.is_zero:
            return
        self.relations.append(p)
        self._gb = None
        self._rules = None

    def gb(self):
        if self._gb is None:
            t = time.time()
            rels = [r for r in self.relations if not r.is_zero]
            if rels:
                self._gb = list(_groebner(rels, self.R))
            else:
                self._gb = []
            self._gb_time += time.time() - t
            self._rules = None
        return self._gb

    def nf(self, p):
        """normal form modulo the Groebner basis (term-wise rewriting with a work list;
        sympy's PolyElement.rem rescans for the leading term at every step - quadratic)"""
        g = self.gb()
        if not g or p.is_ground:
            return p
        rules = self._rules
        if rules is None:
            rules = []
            for q in g:
                lm = q.LM
                lc = q.LC
                tail = [(m, c) for m, c in q.items() if m != lm]
                rules.append((lm, lc, tail))
            self._rules = rules
        mdiv = self.R.monomial_div
        mmul = self.R.monomial_mul
        zero = self.R.domain.zero
        # largest monomial first (heap keyed by the ring order): every contribution to a
        # monomial comes from a larger one, so each distinct monomial is rewritten once
        order = self.R.order
        work = dict(p)
        heap = [(_negkey(order(m)), m) for m in work]
        heapq.heapify(heap)
        result = {}
        steps = 0
        while heap:
            _, m = heapq.heappop(heap)
            c = work.pop(m, None)
            if c is None or not c:
                continue
            for (lm, lc, tail) in rules:
                q = mdiv(m, lm)
                if q is not None:
                    f = -c / lc
                    for (tm, tc) in tail:
                        mm = mmul(q, tm)
                        if mm in work:
                            work[mm] += f * tc
                        else:
                            work[mm] = f * tc
                            heapq.heappush(heap, (_negkey(order(mm)), mm))
                    break
            else:
                result[m] = c
            steps += 1
            if steps > 5000000:
                raise EngineError("normal form: step limit")
        out = self.R.zero.copy()
        out.update(result)
        return out

    def is_zero(self, p):
        return self.nf(p).is_zero

    # ---- atoms
    def _prop(self, a, b):
        """rational r with a == r*b, else None (a, b non-zero polys)"""
        if a.is_zero or b.is_zero:
            return None
        if a.LM != b.LM:
            return None
        r = a.LC / b.LC
        if (a - b * r).is_zero:
            return Fraction(int(r.numerator), int(r.denominator))
        return None

    def _cheb(self, n, S, C):
        """(sin(n x), cos(n x)) as polynomials in S=sin x, C=cos x, n >= 0"""
        s0, c0 = self.R.zero, self.R.one
        if n == 0:
            return s0, c0
        s1, c1 = S, C
        for _ in range(n - 1):
            s0, c0, s1, c1 = s1, c1, s1 * C + c1 * S, c1 * C - s1 * S
        return s1, c1

    def trig(self, a):
        """-> (sin(a), cos(a)) polynomials"""
        a = self.nf(a)
        if a.is_zero:
            return self.R.zero, self.R.one
        # a = r * |f| :  cos(r|f|) = cos(r f),  sin(r|f|) = sin(r f) * f / |f|
        for name, (atom, role) in list(self.gen_atom.items()):
            if atom.kind == "abs":
                r = self._prop(a, self.gen[name])
                if r is not None:
                    f = atom.args[0]
                    s_, c_ = self.trig(f * self.const(r))
                    return s_ * f * self.inverse(self.gen[name]), c_
        for (b, S, C) in self.trig_bases:
            r = self._prop(a, b)
            if r is None:
                continue
            if r.denominator == 1:
                n = abs(r.numerator)
                s, c = self._cheb(n, S, C)
                return (s if r > 0 else -s), c
            # finer base needed: b' = b / q
            q = r.denominator
            nb = b * self.const(Fraction(1, q))
            S2, C2 = self._new_trig_base(nb)
            sq, cq = self._cheb(q, S2, C2)
            self.add_relation(S - sq)
            self.add_relation(C - cq)
            n = abs(r.numerator)
            s, c = self._cheb(n, S2, C2)
            return (s if r > 0 else -s), c
        return self._new_trig_base(a)

    def _new_trig_base(self, b):
        sn = self.new_gen(("sin", b))
        cn = self.new_gen(("cos", b))
        atom = Atom("trig", (sn, cn), (b,))
        self.gen_atom[sn] = (atom, "sin")
        self.gen_atom[cn] = (atom, "cos")
        S, C = self.gen[sn], self.gen[cn]
        self.add_relation(S * S + C * C - 1)
        # keep finer bases first so that later lookups prefer them
        self.trig_bases.insert(0, (b, S, C))
        self.trig_gens.append((sn, cn))
        for (a, kind) in self.angle_ranges:
            r = self._prop(b, a)
            if r is not None and 0 < r <= 1 and kind == "first_quadrant":
                # A-TRIG quadrant facts: 0 <= b < pi/2  ==>  sin b >= 0, cos b > 0
                self.sign[sn] = "nonneg"
                self.sign[cn] = "pos"
        return S, C

    def angle_in(self, a, kind):
        """contract fact about an angle expression (must be stated before the DAG is converted)"""
        self.angle_ranges.append((self.nf(a), kind))

    def _principal(self, b):
        for (a, kind) in self.angle_ranges:
            r = self._prop(b, a)
            if r is not None and 0 < r <= 1:
                return True
        return False

    def sqrt(self, a):
        a = self.nf(a)
        if a.is_ground:
            c = self.const_value(a)
            if c < 0:
                raise EngineError("sqrt of negative constant")
            n, d = math.isqrt(c.numerator), math.isqrt(c.denominator)
            if n * n == c.numerator and d * d == c.denominator:
                return self.const(Fraction(n, d))
        if not a.is_ground:
            # perfect square argument: sqrt(c^2 f^2) = |c f|  (also after trading cos^2 <-> 1 - sin^2)
            for av in self._alt_forms(a):
                try:
                    c0, factors = av.factor_list()
                    cf = Fraction(int(c0.numerator), int(c0.denominator))
                    if cf > 0 and all(e % 2 == 0 for _, e in factors):
                        n, d = math.isqrt(cf.numerator), math.isqrt(cf.denominator)
                        if n * n == cf.numerator and d * d == cf.denominator:
                            root = self.const(Fraction(n, d))
                            for f, e in factors:
                                root = root * f ** (e // 2)
                            return self.abs(root)
                except EngineError:
                    raise
                except Exception:
                    pass
        for key, atom in self.atoms.items():
            if atom.kind != "sqrt":
                continue
            r = self._prop(a, atom.args[0])
            if r is not None and r > 0:
                n, d = math.isqrt(r.numerator), math.isqrt(r.denominator)
                if n * n == r.numerator and d * d == r.denominator:
                    return self.gen[atom.gens[0]] * self.const(Fraction(n, d))
        name = self.new_gen(("sqrt", a))
        atom = Atom("sqrt", (name,), (a,))
        self.atoms[("sqrt", name)] = atom
        self.gen_atom[name] = (atom, "sqrt")
        g = self.gen[name]
        self.add_relation(g * g - a)
        self.nonneg.append(name)
        self.sign[name] = "nonneg"
        self.safe_obligations.append(("sqrt_arg_nonneg", a))
        return g

    def sign_of(self, p):
        """+1 / -1 if the sign facts determine the sign of p (non-strictly), else None"""
        if p.is_ground:
            c = self.const_value(p)
            return 1 if c >= 0 else -1
        names = list(self.gen.keys())
        sgn = None
        for mon, coef in p.items():
            t = 1 if coef > 0 else -1
            for i, e in enumerate(mon):
                if e % 2 == 1:
                    f = self.sign.get(names[i])
                    if f in ("pos", "nonneg"):
                        pass
                    elif f in ("neg", "nonpos"):
                        t = -t
                    else:
                        return None
            if sgn is None:
                sgn = t
            elif sgn != t:
                return None
        return sgn

    def _alt_forms(self, a):
        """a, and a with even powers of one trig generator traded for its partner (c^2 = 1 - s^2)"""
        yield a
        names = list(self.gen.keys())
        for (sn, cn) in self.trig_gens:
            for (x, y) in ((cn, sn), (sn, cn)):
                ix = self.gen_index[x]
                if not any(m[ix] for m in a):
                    continue
                if any(m[ix] % 2 for m in a):
                    continue
                X, Y = self.gen[x], self.gen[y]
                out = self.R.zero
                for m, c in a.items():
                    e = m[ix]
                    m2 = list(m)
                    m2[ix] = 0
                    t = self.R.zero.copy()
                    t[tuple(m2)] = c
                    out += t * (1 - Y * Y) ** (e // 2)
                yield out

    def abs(self, p):
        p = self.nf(p)
        if p.is_ground:
            return self.const(abs(self.const_value(p)))
        sg = self.sign_of(p)
        if sg is not None:
            return p if sg > 0 else -p
        for key, atom in self.atoms.items():
            if atom.kind == "abs":
                r = self._prop(p, atom.args[0])
                if r is not None:
                    return self.gen[atom.gens[0]] * self.const(abs(r))
        name = self.new_gen(("abs", p))
        atom = Atom("abs", (name,), (p,))
        self.atoms[("abs", name)] = atom
        self.gen_atom[name] = (atom, "abs")
        g = self.gen[name]
        self.add_relation(g * g - p * p)
        self.nonneg.append(name)
        self.sign[name] = "nonneg"
        return g

    def inverse(self, d):
        """polynomial standing for 1/d (d != 0 is recorded as a SAFE obligation).
        d is factored; each irreducible factor gets (or reuses) one inverse generator."""
        d = self.nf(d)
        if d.is_zero:
            # the denominator vanishes identically on this path: either the path is infeasible or the
            # code divides by zero; the marker generator makes every dependent obligation fail, and the
            # failure handler then decides which of the two it is
            self.div_by_zero = True
            self.safe_obligations.append(("denominator_nonzero", d))
            return self.gen["DIVZERO"]
        if d.is_ground:
            return self.const(1 / self.const_value(d))
        key = d
        if key in self._inv_cache:
            return self._inv_cache[key]
        try:
            c, factors = d.factor_list()
        except Exception:
            c, factors = d.LC, [(d.monic(), 1)]
        res = self.R.ground_new(1 / c)
        factors = sorted(factors, key=lambda fe: (len(fe[0]), str(fe[0])))
        for f, e in factors:
            res = res * self._inverse_irreducible(f) ** e
        self._inv_cache[key] = res
        return res

    def _inverse_irreducible(self, f):
        lc = f.LC
        f = f.monic()
        scale = self.R.ground_new(1 / lc)
        # 1 / (1/b) = b
        for (base, name) in self.inv_gens:
            if f == self.gen[name]:
                return base * scale
        for (base, name) in self.inv_gens:
            if base == f:
                return self.gen[name] * scale
        # expressible through existing inverse generators?  f * I^m == const
        for (base, name) in self.inv_gens:
            I = self.gen[name]
            t = f
            for m in range(1, 7):
                t = self.nf(t * I)
                if t.is_ground and not t.is_zero:
                    return I ** m * self.const(1 / self.const_value(t)) * scale
                if len(t) > 4 * len(f) + 8:
                    break
        name = self.new_gen(("inv", f))
        atom = Atom("inv", (name,), (f,))
        self.atoms[("inv", name)] = atom
        self.gen_atom[name] = (atom, "inv")
        I = self.gen[name]
        self.add_relation(f * I - 1)
        self.inv_gens.append((f, name))
        self.safe_obligations.append(("denominator_nonzero", f))
        return I * scale

    def opaque(self, kind, *args):
        args = tuple(self.nf(a) for a in args)
        if kind == "atan2":
            # A-ATAN2: atan2(sin b, cos b) = b for b in (-pi, pi);  atan2(-sin b, cos b) = -b
            y, x = args
            if y.is_zero and x.is_ground and self.const_value(x) > 0:
                return self.R.zero          # atan2(0, c) = 0 for c > 0
            for (b, Sb, Cb) in self.trig_bases:
                if not self._principal(b):
                    continue
                if self.nf(y * Cb - x * Sb).is_zero and (self.nf(y * Sb + x * Cb) - 1).is_zero:
                    return b
                if self.nf(y * Cb + x * Sb).is_zero and (self.nf(x * Cb - y * Sb) - 1).is_zero:
                    return -b
        key = (kind,) + tuple(args)
        for k, atom in self.atoms.items():
            if atom.kind == kind and atom.args == args:
                return self.gen[atom.gens[0]]
        name = self.new_gen((kind,) + args)
        atom = Atom(kind, (name,), args)
        self.atoms[(kind, name)] = atom
        self.gen_atom[name] = (atom, kind)
        g = self.gen[name]
        if kind == "cbrt":
            self.add_relation(g * g * g - args[0])
        if kind == "atan2":
            y, x = args
            self.safe_obligations.append(("atan2_not_origin", y * y + x * x))
            # A-ATAN2: sin(atan2(y,x)) = y/r, cos(atan2(y,x)) = x/r, r = sqrt(x^2+y^2)
            r = self.sqrt(x * x + y * y)
            ir = self.inverse(r)
            self.trig_bases.append((g, y * ir, x * ir))
        return g

    # ---- DAG -> polynomials
    def P(self, nid):
        """polynomial of DAG node nid (iterative, memoised)"""
        if nid in self.node_poly:
            return self.node_poly[nid]
        nodes = self.path.nodes
        stack = [nid]
        while stack:
            i = stack[-1]
            if i in self.node_poly:
                stack.pop()
                continue
            n = nodes[i]
            need = [c for c in (n.a, n.b) if c >= 0 and c not in self.node_poly]
            if need:
                stack.extend(need)
                continue
            self.node_poly[i] = self._conv(n)
            stack.pop()
        return self.node_poly[nid]

    def _conv(self, n):
        op = n.op
        if op == "const":
            return self.const(n.const)
        if op in ("var", "poison"):
            return self.gen[n.name]
        if op == "undef":
            return self.gen["UNDEF"]
        a = self.node_poly[n.a] if n.a >= 0 else None
        b = self.node_poly[n.b] if n.b >= 0 else None
        if op == "add":
            return a + b
        if op == "sub":
            return a - b
        if op == "mul":
            r = a * b
            if len(r) > NF_EAGER:
                r = self.nf(r)
            return r
        if op == "neg":
            return -a
        if op == "div":
            return a * self.inverse(b)
        if op == "sin":
            return self.trig(a)[0]
        if op == "cos":
            return self.trig(a)[1]
        if op == "tan":
            s, c = self.trig(a)
            return s * self.inverse(c)
        if op == "sqrt":
            return self.sqrt(a)
        if op == "abs":
            return self.abs(a)
        if op == "atan2":
            return self.opaque("atan2", a, b)
        if op in ("acos", "asin", "cbrt", "exp", "log", "floor", "ceil"):
            return self.opaque(op, a)
        raise EngineError("unknown op " + op)

    def attach(self, other_path):
        """view of another path's DAG (same input variables) inside this algebra: used to compare
        the outputs of two branches of one function on the same symbolic input"""
        return _Attached(self, other_path)

    def out(self, name):
        """numpy object array (rows x cols) of polynomials for output `name`"""
        import numpy as np
        o = self.path.outs[name]
        m = np.empty((o.rows, o.cols), dtype=object)
        for c in range(o.cols):
            for r in range(o.rows):
                m[r, c] = self.P(o.at(r, c))
        return m

    def has_out(self, name):
        return name in self.path.outs

    def uses_gens(self, p, names):
        idx = [self.gen_index[n] for n in names if n in self.gen_index]
        for mon in p:
            for i in idx:
                if mon[i]:
                    return True
        return False

    def poison_names(self):
        return [n.name for n in self.path.nodes.values() if n.op == "poison"] + ["UNDEF", "DIVZERO"]

    # ---- differentiation along a direction of the input variables
    def make_diff(self, direction):
        """direction: dict var name -> polynomial (d var).  Returns D(p)."""
        dgen = {}
        for name in self.var_names:
            dgen[name] = direction.get(name, self.R.zero)
        dgen["UNDEF"] = self.R.zero
        dgen["DIVZERO"] = self.R.zero
        alg = self

        def dg(name):
            if name in dgen:
                return dgen[name]
            atom, role = alg.gen_atom[name]
            k = atom.kind
            if k == "trig":
                sn, cn = atom.gens
                db = D(atom.args[0])
                dgen[sn] = alg.gen[cn] * db
                dgen[cn] = -alg.gen[sn] * db
            elif k == "sqrt":
                g = alg.gen[name]
                dgen[name] = D(atom.args[0]) * alg.inverse(g) * alg.const(Fraction(1, 2))
            elif k == "inv":
                g = alg.gen[name]
                dgen[name] = -g * g * D(atom.args[0])
            elif k == "abs":
                g = alg.gen[name]
                dgen[name] = atom.args[0] * alg.inverse(g) * D(atom.args[0])
            elif k == "atan2":
                y, x = atom.args
                dgen[name] = (x * D(y) - y * D(x)) * alg.inverse(x * x + y * y)
            elif k == "cbrt":
                g = alg.gen[name]
                dgen[name] = D(atom.args[0]) * alg.inverse(g * g) * alg.const(Fraction(1, 3))
            else:
                raise EngineError("cannot differentiate atom " + k)
            return dgen[name]

        names = list(self.gen.keys())

        def D(p):
            res = alg.R.zero
            if p.is_ground:
                return res
            # which generators occur
            occ = set()
            for mon in p:
                for i, e in enumerate(mon):
                    if e:
                        occ.add(i)
            for i in occ:
                name = names[i]
                d = dg(name)
                if d.is_zero:
                    continue
                res += p.diff(alg.gen[name]) * d
            return res

        return D

    # ---- description of generators (for reports)
    def describe(self):
        out = {}
        for name, d in self.gen_desc.items():
            out[name] = "%s(%s)" % (d[0], ", ".join(str(x) for x in d[1:]))
        return out


class _Attached:
    def __init__(self, alg, path):
        self.alg, self.path = alg, path
        self.memo = {}
        for n in path.nodes.values():
            if n.op in ("var", "poison") and n.name not in alg.gen:
                raise EngineError("attached path uses unknown variable " + n.name)

    def P(self, nid):
        alg = self.alg
        saved_path, saved_memo = alg.path, alg.node_poly
        alg.path, alg.node_poly = self.path, self.memo
        try:
            return alg.P(nid)
        finally:
            alg.path, alg.node_poly = saved_path, saved_memo

    def out(self, name):
        import numpy as np
        o = self.path.outs[name]
        m = np.empty((o.rows, o.cols), dtype=object)
        for c in range(o.cols):
            for r in range(o.rows):
                m[r, c] = self.P(o.at(r, c))
        return m
