"""bin/check <Cxx> --replay <file>: replay a recorded violation against the REAL code of the current
working tree: rebuild the native (double) harness of the scenario, run it on the recorded input and
print the real outputs next to the verifier's output for the failed obligation."""
import json
import os
import re
import subprocess
import sys

from . import build


def main(pid, path):
    d = json.load(open(path))
    print("property   :", d.get("property"))
    print("obligation :", d.get("obligation"))
    print("kind/backend:", d.get("kind"), "/", d.get("backend"))
    print("verifier output:")
    print(json.dumps(d.get("verifier_output"), indent=1)[:4000])
    rp = d.get("replay") or {}
    if not rp.get("input"):
        print("no concrete input recorded (%s)" % ("no-failing-input-found" if not rp.get("failing_input_reproduced") else "see demonstration"))
        if rp.get("demonstration"):
            print("demonstration:", rp["demonstration"])
        return 0
    print("recorded input:", json.dumps(rp["input"]))
    binary = rp.get("native_binary")
    scn = rp.get("scenario")
    if isinstance(rp.get("input"), dict) and binary and scn:
        # rebuild the native harness for the current tree if the recorded binary is gone
        if not os.path.exists(binary):
            m = re.match(r".*/(h_[a-z0-9]+)_(.+?)_native_[0-9a-f]+_native$", binary)
            if m:
                from contracts import common as C
                src = m.group(1) + ".cpp"
                for g in C.SIMPLE + C.RN_ALL + C.BUNDLES_ALL:
                    if C.S.file_tag(g) == m.group(2):
                        h = C.Harness(src)
                        h.build([g])
                        binary = h.natives.get(g, binary)
        if os.path.exists(binary):
            try:
                vals = {k: float(v) for k, v in rp["input"].items()}
            except (TypeError, ValueError):
                vals = None
            if vals is not None:
                outs, thrown = build.run_native(binary, scn, vals, os.path.join(build.BUILD, "tmp"))
                print("real code (double), scenario %s:" % scn)
                for k, v in outs.items():
                    print("  %s (%dx%d): %s" % (k, v[0], v[1], v[2]))
                if thrown:
                    print("  thrown:", thrown)
                if rp.get("native_outputs"):
                    print("recorded at detection time:", json.dumps(rp["native_outputs"])[:2000])
                return 0
    if rp.get("native_cmd"):
        print("native command:", rp["native_cmd"])
    if rp.get("native_output"):
        print("recorded native output:", rp["native_output"])
    return 0
