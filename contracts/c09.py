"""C09  optional outputs are transparent; operations are pure and deterministic.

Contracts (frame conditions on traces; all comparisons are same-execution DAG identities, i.e. they hold for ALL inputs):
  transparency   for every operation and every subset of its optional Jacobian outputs the returned value is the same
                 expression, and each Jacobian is the same expression whichever others are requested with it
  frame          no operation modifies its arguments (argument cells keep their node ids);
                 an output bound to a block of a larger matrix writes exactly that block: cells outside stay the
                 untouched sentinel, cells inside equal the plain call's Jacobian and contain no sentinel
  determinism    repeating a call after unrelated library activity (static initialisation of Identity/Zero/generators,
                 other elements, other operations) yields the identical expression, values and Jacobians
  aliasing       X = X*X, X = X.inverse(), X += t, X *= Y, t = t+t equal the unaliased computation
The only nondeterministic primitive is rand() (A-RAND), reachable only from Random()/setRandom().
"""
import numpy as np

from . import common as C

HARNESS = C.Harness("h_pure.cpp", assertions=True, extra_defines=["VS_STUB_LARGE_INVERSE"], auto_valid=True)

SUBSETS2 = ["compose", "between", "rminus", "lminus", "minus", "rplus", "lplus", "plus", "act"]
SUBSETS1 = ["inverse", "log", "exp"]
REPEAT = ["compose", "inverse", "log", "exp", "rminus", "rplus"]
ALIAS = [("sq_alias", "sq_plain"), ("inv_alias", "inv_plain"), ("plus_alias", "plus_plain"), ("mul_alias", "mul_plain"),
         ("comp_alias", "mul_plain"), ("comp_alias2", "mul_plain"), ("tsum_alias", "tsum_plain")]


def prebuild_targets(tier):
    return HARNESS.targets(C.groups_for(tier), native=False)


def same(rep, label, path, a, b, what):
    oa, ob = path.outs.get(a), path.outs.get(b)
    nm = "%s/%s" % (label, what)
    if oa is None or ob is None:
        rep.fail(nm, "FRAME", "dag", {"missing": a if oa is None else b}, {"failing_input_reproduced": False})
        return False
    if list(oa.ids) == list(ob.ids) and (oa.rows, oa.cols) == (ob.rows, ob.cols):
        rep.ok(nm, "FRAME", "dag")
        return True
    diff = [i for i, (x, y) in enumerate(zip(oa.ids, ob.ids)) if x != y]
    rep.fail(nm, "FRAME", "dag", {"path": path.key, "outputs": [a, b], "cells_that_differ": diff[:12],
                                  "note": "the two results are different expressions of the inputs"},
             {"failing_input_reproduced": False, "scenario": path.scenario})
    return False


def run(rep, tier, seed):
    groups = C.groups_for(tier)
    if tier == "quick":
        groups = [g for g in groups if not g.startswith("Bundle")] + ["Bundle:SO2,SE3,R3"]
    else:
        # bundles of several 3D groups multiply the elements' branch structures beyond the path cap
        groups = [g for g in groups if not g.startswith("Bundle")] + ["Bundle:SO2,SE3,R3", "Bundle:SE2,SO3,R3", "Bundle:SO3,SO3",
                                                                       "Bundle:SE2,SE2,SE2,SE2", "Bundle:SGal3,R3,SO2", "Bundle:SE_2_3"]
    errs = HARNESS.build(groups, native=False)
    rep.trust("hash-consing of the tracer: equal node ids <=> same expression of the inputs (so DAG identity holds for all inputs)",
              "A-RAND: rand() is the only nondeterministic primitive and is reachable only from Random()/setRandom()",
              "auto-valid tracing (normalisation tests answered 'within threshold'); both results of a comparison see the same answers")
    rep.assume("byte-level effects (padding, alignment) are outside the scalar-cell model")
    C.check_anchor(rep, "LieGroupBase::compose", "include/manif/impl/lie_group_base.h")
    C.check_anchor(rep, "LieGroupBase::rplus", "include/manif/impl/lie_group_base.h")
    for g in groups:
        if g in errs:
            rep.fail("C09/%s/instantiates" % g, "BUILD", "g++", {"compiler_output": errs[g].output[-3000:]},
                     {"failing_input_reproduced": False})
            continue
        scns = ["subsets_" + s for s in SUBSETS2 + SUBSETS1] + ["block_compose", "block_exp_log", "aliasing"] + ["repeat_" + s for s in REPEAT]
        HARNESS.prefetch(g, scns)
        for op in SUBSETS2:
            for path in HARNESS.paths(g, "subsets_" + op):
                if path.thrown:
                    continue
                L = "C09/%s/%s[%s]" % (g, op, path.script)
                for v in ("v_a", "v_b", "v_"):
                    same(rep, L, path, v, "v_ab", "value_%s_same_as_all_outputs" % v)
                same(rep, L, path, "Ja_a", "Ja_ab", "first_jacobian_independent_of_second")
                same(rep, L, path, "Jb_b", "Jb_ab", "second_jacobian_independent_of_first")
                same(rep, L, path, "X_after", "X_before", "first_argument_unchanged")
                same(rep, L, path, "Y_after", "Y_before", "second_argument_unchanged")
        for op in SUBSETS1:
            for path in HARNESS.paths(g, "subsets_" + op):
                if path.thrown:
                    continue
                L = "C09/%s/%s[%s]" % (g, op, path.script)
                same(rep, L, path, "v_", "v_a", "value_same_with_and_without_jacobian")
                same(rep, L, path, "X_after", "X_before", "argument_unchanged")
        for scn in ("block_compose", "block_exp_log"):
            for path in HARNESS.paths(g, scn):
                if path.thrown:
                    continue
                block_frame(rep, "C09/%s/%s[%s]" % (g, scn, path.script), path)
        for op in REPEAT:
            for path in HARNESS.paths(g, "repeat_" + op):
                if path.thrown:
                    continue
                L = "C09/%s/repeat_%s[%s]" % (g, op, path.script)
                same(rep, L, path, "r2", "r1", "value_identical_after_unrelated_activity")
                same(rep, L, path, "Ka", "Ja", "jacobian_identical_after_unrelated_activity")
                if op in ("compose", "rminus", "rplus"):
                    same(rep, L, path, "Kb", "Jb", "second_jacobian_identical_after_unrelated_activity")
        for path in HARNESS.paths(g, "aliasing"):
            if path.thrown:
                continue
            L = "C09/%s/aliasing[%s]" % (g, path.script)
            for a, b in ALIAS:
                same(rep, L, path, a, b, "%s_equals_unaliased" % a)


def block_frame(rep, L, path):
    n = path.ints["dof"]
    big = path.outs["big"]
    Ja, Jb = path.outs["Ja"], path.outs["Jb"]
    blocks = {"first": (1, 2, Ja), "second": (n + 2, n + 3, Jb)}
    inside = set()
    ok = True
    bad = []
    for nm, (r0, c0, J) in blocks.items():
        for c in range(n):
            for r in range(n):
                inside.add((r0 + r, c0 + c))
                if big.at(r0 + r, c0 + c) != J.at(r, c):
                    bad.append([nm, r, c])
    if bad:
        rep.fail("%s/block_holds_the_jacobian" % L, "FRAME", "dag", {"path": path.key, "cells": bad[:12]}, {"failing_input_reproduced": False})
    else:
        rep.ok("%s/block_holds_the_jacobian" % L, "FRAME", "dag")
    touched = []
    unwritten = []
    for c in range(big.cols):
        for r in range(big.rows):
            node = path.nodes[big.at(r, c)]
            is_sentinel = node.op == "poison" and node.name == "big_%d_%d" % (r, c)
            if (r, c) in inside:
                if node.op in ("poison", "undef"):
                    unwritten.append([r, c])
            elif not is_sentinel:
                touched.append([r, c])
    if touched:
        rep.fail("%s/nothing_outside_the_block_written" % L, "FRAME", "dag", {"path": path.key, "cells_written_outside": touched[:12]},
                 {"failing_input_reproduced": False})
    else:
        rep.ok("%s/nothing_outside_the_block_written" % L, "FRAME", "dag")
    if unwritten:
        rep.fail("%s/every_cell_of_the_block_written" % L, "FRAME", "dag", {"path": path.key, "cells": unwritten[:12]},
                 {"failing_input_reproduced": False})
    else:
        rep.ok("%s/every_cell_of_the_block_written" % L, "FRAME", "dag")
    if "v_block" in path.outs:
        same(rep, L, path, "v_block", "v_plain", "value_same_with_block_outputs")
