"""Shared plumbing for the per-property contract files."""
import os
import re

from engine import build, trace
from engine.core import Undecided
from engine.vc import Inp, PathCtx
from . import spec as S

SIMPLE = ["SO2", "SE2", "SO3", "SE3", "SE_2_3", "SGal3"]
RN_QUICK = ["R3"]
RN_ALL = ["R1", "R2", "R3", "R5", "R9"]
BUNDLES_QUICK = ["Bundle:SO2,SE3,R3", "Bundle:SE_2_3,SO3,SE2"]
BUNDLES_ALL = BUNDLES_QUICK + [
    "Bundle:SE2,SO3,SE3", "Bundle:SO3,SE3,SE_2_3", "Bundle:SE3,SE_2_3,SGal3", "Bundle:SGal3,R3,SO2",
    "Bundle:R3,SO2,SE2", "Bundle:SO3,SO3", "Bundle:SO2", "Bundle:SE2", "Bundle:SO3", "Bundle:SE3",
    "Bundle:SE_2_3", "Bundle:SGal3", "Bundle:R3", "Bundle:R2,R2", "Bundle:SE2,SE2,SE2,SE2",
]

GROUP_FILES = {
    "SO2": "so2/SO2", "SE2": "se2/SE2", "SO3": "so3/SO3", "SE3": "se3/SE3",
    "SE_2_3": "se_2_3/SE_2_3", "SGal3": "sgal3/SGal3", "Rn": "rn/Rn", "Bundle": "bundle/Bundle",
}


def family(gname):
    if gname.startswith("R") and gname[1:].isdigit():
        return "Rn"
    if gname.startswith("Bundle"):
        return "Bundle"
    return gname


def base_file(gname):
    return "include/manif/impl/%s_base.h" % GROUP_FILES[family(gname)]


def tangent_base_file(gname):
    return "include/manif/impl/%sTangent_base.h" % GROUP_FILES[family(gname)]


def groups_for(tier, bundles=True, rn=True):
    if os.environ.get("VERIF_GROUPS"):
        return os.environ["VERIF_GROUPS"].split(";")
    g = list(SIMPLE)
    if rn:
        g += RN_QUICK if tier == "quick" else RN_ALL
    if bundles:
        g += BUNDLES_QUICK if tier == "quick" else BUNDLES_ALL
    return g


def check_anchor(rep, qualified, relfile, pattern=None):
    """the function under contract must still exist in the source (a rename is
    UNDECIDED, not a violation)"""
    p = os.path.join(build.REPO, relfile)
    if not os.path.exists(p):
        raise Undecided("anchor file missing: " + relfile)
    rx = pattern or (r"\b" + re.escape(qualified.split("::")[-1]) + r"\b")
    txt = open(p).read()
    if not re.search(rx, txt):
        raise Undecided("anchor %s not found in %s" % (rx, relfile))
    rep.function(qualified, relfile)


class Harness:
    """one harness source compiled per group (symbolic + native) and its cached traces"""

    def __init__(self, source, assertions=True, extra_defines=(), auto_valid=False):
        self.auto_valid = auto_valid
        self.source = source
        self.assertions = assertions
        self.extra = list(extra_defines)
        self.bins = {}
        self.natives = {}
        self.traces = {}

    def targets(self, gnames, native=True):
        ts = []
        base = os.path.splitext(self.source)[0]
        for g in gnames:
            defs = ["GROUP=" + S.cpp_type(g), "FAM_" + family(g)] + self.extra
            if g.startswith("Bundle"):
                defs.append("VS_NO_TRANSFORM")   # Bundle::transform has its own harness (C11)
            tag = S.file_tag(g)
            ts.append(build.Target("%s_%s" % (base, tag), self.source, defs, native=False, assertions=self.assertions))
            if native:
                ts.append(build.Target("%s_%s_native" % (base, tag), self.source, defs, native=True,
                                       assertions=self.assertions))
        return ts

    def build(self, gnames, native=True):
        ts = self.targets(gnames, native)
        res = build.build_all(ts)
        base = os.path.splitext(self.source)[0]
        errs = {}
        for g in gnames:
            tag = S.file_tag(g)
            r = res["%s_%s" % (base, tag)]
            if isinstance(r, build.BuildError):
                errs[g] = r
            else:
                self.bins[g] = r
            if native:
                r = res["%s_%s_native" % (base, tag)]
                if not isinstance(r, build.BuildError):
                    self.natives[g] = r
        return errs

    def paths(self, g, scenario):
        key = (g, scenario)
        if key not in self.traces:
            ps, done = build.run_scenarios(self.bins[g], [scenario], env=self._env())
            if scenario not in done:
                raise Undecided("scenario %s did not complete for %s" % (scenario, g))
            self.traces[key] = ps
        return self.traces[key]

    def prefetch(self, g, scenarios):
        need = [s for s in scenarios if (g, s) not in self.traces]
        if not need:
            return
        ps, done = build.run_scenarios(self.bins[g], need, env=self._env())
        for s in need:
            if s not in done:
                raise Undecided("scenario %s did not complete for %s" % (s, g))
            self.traces[(g, s)] = [p for p in ps if p.scenario == s]

    def _env(self):
        return {"VS_AUTO_VALID": "1"} if self.auto_valid else None

    def native(self, g, scenario):
        return (self.natives.get(g), scenario)


def spec_for(alg, gname):
    return S.make_spec(gname, alg.R.zero, alg.R.one)


def mk_inputs(gname, decl, zero=0, one=1):
    """decl: list of (prefix, kind) | (prefix, 'M'|'U', n) | (prefix, 'G'|'T', other group name);
    specs over plain ints only provide sizes / names"""
    sp = S.make_spec(gname, zero, one)
    out = []
    for d in decl:
        if len(d) == 2:
            out.append(Inp(d[0], d[1], sp))
        elif d[1] in ("M", "U"):
            out.append(Inp(d[0], d[1], None, d[2]))
        else:
            i = Inp(d[0], d[1], S.make_spec(d[2], zero, one))
            i.other = d[2]
            out.append(i)
    return out


def ctx_for(rep, label, path, gname, decl, native=None, seed=0, exact_valid=True):
    """PathCtx whose input specs live in the path's own ring"""
    tmp = mk_inputs(gname, decl)
    c = PathCtx(rep, label, path, tmp, native=native, seed=seed, exact_valid=False)
    sp = spec_for(c.alg, gname)
    for i in c.inputs:
        if getattr(i, "other", None):
            i.spec = spec_for(c.alg, i.other)
        elif i.spec is not None:
            i.spec = sp
    if exact_valid:
        for i in c.inputs:
            if i.kind == "G":
                for e in i.spec.valid_eqs(c.E[i.prefix]):
                    c.alg.add_relation(e)
            if i.kind == "U":
                v = c.E[i.prefix]
                c.alg.add_relation(sum((x * x for x in v), c.alg.R.zero) - 1)
    c.spec = sp
    return c
from . import taylor as _taylor   # noqa: installs engine.vc.ASSUMPTION_PROVER
