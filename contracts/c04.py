"""C04  plus, minus, between are the documented compositions; all aliases agree.

Contracts (LieGroupBase / TangentBase generic layer, checked per concrete group because the
layer is instantiated per group; a must-hold rule checks that no group overrides it):
  rplus(t)  == compose(exp t)        lplus(t)  == exp(t).compose(X)
  rminus(Y) == log(Y^-1 X)           lminus(Y) == log(X Y^-1)          between(Y) == X^-1 Y
  every alias (plus, minus, + += - * *=, t+X, t.plus(X), t.lplus(X), t.rplus(X), free functions of
  functions.h) returns the SAME computation as its canonical member, values and Jacobians.
"Same computation" is decided on the trace: the canonical member, the documented composition of
primitives and every alias are evaluated in one execution over hash-consed expressions, so they
agree for ALL inputs iff the node ids of their results coincide (no algebra involved).
  (X + t) - X == t  (|angle| < pi)   and   X + (Y - X) == Y  (as transformation): normal form,
  for SO2, SE2, SO3, Rn; for the other groups they follow from C01 (group laws) and C03 (log/exp).
Each free function of functions.h is compiled in its own translation unit: one that cannot be
instantiated is a violation of this property.
"""
import re

import numpy as np

from engine import build
from . import common as C
from .common import ctx_for
from . import taylor, c03

HARNESS = C.Harness("h_c04.cpp", assertions=True, extra_defines=["VS_STUB_LARGE_INVERSE"])
FREE = C.Harness("h_c04.cpp", assertions=True, extra_defines=["VS_STUB_LARGE_INVERSE", "VS_FREE_FUNCTIONS"])
TAU = c03.TAU

FREE_FUNCS = [
    ("inverse", "out(\"r\", manif::inverse(X).coeffs())"), ("rplus", "out(\"r\", manif::rplus(X, t).coeffs())"),
    ("lplus", "out(\"r\", manif::lplus(X, t).coeffs())"), ("plus", "out(\"r\", manif::plus(X, t).coeffs())"),
    ("rminus", "out(\"r\", manif::rminus(X, Y).coeffs())"), ("lminus", "out(\"r\", manif::lminus(X, Y).coeffs())"),
    ("minus", "out(\"r\", manif::minus(X, Y).coeffs())"), ("log", "out(\"r\", manif::log(X).coeffs())"),
    ("lift", "out(\"r\", manif::lift(X).coeffs())"), ("exp", "out(\"r\", manif::exp(t).coeffs())"),
    ("retract", "out(\"r\", manif::retract(t).coeffs())"), ("compose", "out(\"r\", manif::compose(X, Y).coeffs())"),
    ("between", "out(\"r\", manif::between(X, Y).coeffs())"), ("act", "out(\"r\", manif::act(X, p))"),
    ("coeffs", "out(\"r\", manif::coeffs(X))"), ("data", "out_int(\"r\", manif::data(X) != 0)"),
    ("identity", "manif::identity(Z); out(\"r\", Z.coeffs())"), ("zero", "manif::zero(z); out(\"r\", z.coeffs())"),
    ("random(group)", "manif::random(Z); out(\"r\", Z.coeffs())"), ("random(tangent)", "manif::random(z); out(\"r\", z.coeffs())"),
]

SAME = {
    "plus_family": [
        ("rplus", "doc_rplus"), ("plus", "rplus"), ("op_plus", "rplus"), ("op_plus_assign", "rplus"), ("t_rplus", "rplus"),
        ("plus_Ja", "rplus_Ja"), ("plus_Jb", "rplus_Jb"), ("t_rplus_Jt", "rplus_Jb"), ("t_rplus_Jm", "rplus_Ja"),
    ],
    "lplus_family": [
        ("lplus", "doc_lplus"), ("t_op_plus", "lplus"), ("t_plus", "lplus"), ("t_lplus", "lplus"),
        ("t_plus_Jt", "lplus_Jb"), ("t_plus_Jm", "lplus_Ja"), ("t_lplus_Jt", "lplus_Jb"), ("t_lplus_Jm", "lplus_Ja"),
    ],
    "minus_family": [
        ("rminus", "doc_rminus"), ("minus", "rminus"), ("op_minus", "rminus"), ("minus_Ja", "rminus_Ja"), ("minus_Jb", "rminus_Jb"),
    ],
    "lminus_family": [("lminus", "doc_lminus")],
    "between_family": [("between", "doc_between"), ("op_mul", "compose"), ("op_mul_assign", "compose")],
}
FREE_SAME = ["inverse", "rplus", "lplus", "plus", "rminus", "lminus", "minus", "log", "lift", "exp", "retract", "compose",
             "between", "act", "coeffs", "identity", "zero"]
ROUNDTRIP_GROUPS = ["SO2", "SE2", "SO3", "R3"]


def prebuild_targets(tier):
    gs = C.groups_for(tier, bundles=False)
    return HARNESS.targets(gs, native=False) + FREE.targets(gs, native=False)


def no_overrides(rep):
    """must-hold rule: the generic layer is not overridden by any group, so the per-group instantiation checked here is the generic code"""
    import os
    names = ["rplus", "lplus", "plus", "rminus", "lminus", "minus", "between", "isApprox"]
    bad = []
    for d, _, files in os.walk(os.path.join(build.REPO, "include/manif/impl")):
        for f in files:
            if f.endswith("_base.h") and f not in ("lie_group_base.h", "tangent_base.h"):
                txt = open(os.path.join(d, f)).read()
                for n in names:
                    if re.search(r"Base<_Derived>::%s\(" % n, txt):
                        bad.append((f, n))
    if bad:
        rep.undecide("C04/generic_layer_not_overridden", "RULE", "grep", "overrides found: %s" % bad)
    else:
        rep.ok("C04/generic_layer_not_overridden", "RULE", "grep")


def same_dag(rep, label, path, a, b):
    oa, ob = path.outs.get(a), path.outs.get(b)
    nm = "%s/%s_is_%s" % (label, a, b)
    if oa is None or ob is None:
        rep.fail(nm, "ID", "dag", {"missing_output": a if oa is None else b}, {"failing_input_reproduced": False})
        return
    if list(oa.ids) == list(ob.ids) and (oa.rows, oa.cols) == (ob.rows, ob.cols):
        rep.ok(nm, "ID", "dag")
        return None
    return (nm, oa, ob)


def run(rep, tier, seed):
    groups = C.groups_for(tier, bundles=False)
    errs = HARNESS.build(groups, native=False)
    rep.trust("hash-consing of the tracer (vsym/sym.h): equal node ids <=> same expression DAG",
              "REAL (only for the two round-trip identities), A-TRIG/A-ATAN2/A-SQRT/A-TAYLOR there",
              "g++ template instantiation over vs::Sym")
    rep.assume("owning operands only; Map views are C10",
               "round trips are discharged for SO2, SE2, SO3, Rn; for SE3, SE_2(3), SGal(3), Bundles they are a consequence of C01 + C03 (lemma, not re-proved)")
    no_overrides(rep)
    C.check_anchor(rep, "LieGroupBase::rplus", "include/manif/impl/lie_group_base.h")
    C.check_anchor(rep, "LieGroupBase::rminus", "include/manif/impl/lie_group_base.h")
    C.check_anchor(rep, "LieGroupBase::between", "include/manif/impl/lie_group_base.h")
    C.check_anchor(rep, "TangentBase::plus(LieGroup)", "include/manif/impl/tangent_base.h", r"::plus\(const LieGroup")
    C.check_anchor(rep, "manif::rplus (functions.h)", "include/manif/functions.h", r"\brplus\(")
    for g in groups:
        if g in errs:
            rep.fail("C04/%s/instantiates" % g, "BUILD", "g++", {"compiler_output": errs[g].output[-3000:]},
                     {"failing_input_reproduced": False})
            continue
        HARNESS.prefetch(g, list(SAME.keys()))
        for scn, pairs in SAME.items():
            n = 0
            for path in HARNESS.paths(g, scn):
                if path.thrown:
                    continue
                n += 1
                label = "C04/%s/%s[%s]" % (g, scn, path.script)
                for a, b in pairs:
                    diff = same_dag(rep, label, path, a, b)
                    if diff:
                        # not the same DAG: decide by normal form (may still be the same function)
                        c = ctx_for(rep, label, path, g, [("x", "G"), ("y", "G"), ("t", "T")], seed=seed)
                        if c.feasible() != "no":
                            c.eq("%s_is_%s" % (a, b), c.out(a), c.out(b))
            if n == 0:
                rep.undecide("C04/%s/%s/paths" % (g, scn), "FEAS", "trace", "no non-throwing path")
    # ---- free functions, one translation unit each (SE2 is a group where Dim != DoF)
    free_functions(rep, groups, seed)
    # ---- round trips
    for g in [x for x in ROUNDTRIP_GROUPS if x in groups]:
        roundtrips(rep, g, seed, second=(g != "SO3"))


def free_functions(rep, groups, seed):
    g0 = "SE2"
    ts = []
    for name, expr in FREE_FUNCS:
        ts.append(build.Target("h_c04_one_%s" % re.sub(r"\W", "_", name), "h_c04.cpp",
                               ["GROUP=" + C.S.cpp_type(g0), "VS_ONE_FREE_FUNCTION=" + expr], native=False))
    res = build.build_all(ts)
    broken = []
    for (name, expr), t in zip(FREE_FUNCS, ts):
        r = res[t.name]
        nm = "C04/functions.h/%s/instantiates(%s)" % (name, g0)
        if isinstance(r, build.BuildError):
            broken.append(name)
            lines = [l for l in r.output.splitlines() if "error" in l][:4]
            rep.fail(nm, "BUILD", "g++", {"expression": expr, "compiler_output": "\n".join(lines)},
                     {"failing_input_reproduced": True,
                      "demonstration": "a translation unit containing `%s` for manif::SE2d does not compile" % expr.split(",")[-1]})
        else:
            rep.ok(nm, "BUILD", "g++", detail={"expression": expr})
    if broken:
        return
    errs = FREE.build(groups, native=False)
    for g in groups:
        if g in errs:
            lines = [l for l in errs[g].output.splitlines() if "error" in l][:4]
            rep.fail("C04/functions.h/instantiates(%s)" % g, "BUILD", "g++", {"compiler_output": "\n".join(lines)},
                     {"failing_input_reproduced": True})
            continue
        scns = ["ff_" + f for f in FREE_SAME]
        FREE.prefetch(g, scns)
        for f in FREE_SAME:
            for path in FREE.paths(g, "ff_" + f):
                if path.thrown:
                    continue
                label = "C04/%s/free_function_%s[%s]" % (g, f, path.script)
                diff = same_dag(rep, label, path, "f", "m")
                if diff:
                    rep.fail("%s/f_is_m" % label, "ID", "dag", {"note": "free function differs from the member"},
                             {"failing_input_reproduced": False})


def roundtrips(rep, g, seed, second=True):
    HARNESS.prefetch(g, ["roundtrip_plus_minus", "roundtrip_minus_plus"])
    n = 0
    for path in HARNESS.paths(g, "roundtrip_plus_minus"):
        c = ctx_for(rep, "C04/%s/(X+t)-X[%s]" % (g, path.script), path, g, [("x", "G"), ("t", "T")], seed=seed)
        if g in c03.ANG:
            c03._angle_facts(c, g)
        if c.feasible() == "no":
            continue
        if path.thrown:
            c.must_not_throw()
            continue
        n += 1
        taylor.with_taylor(c, TAU, lambda c=c: c.eq("equals_t", c.vec("out"), c.E["t"]))
    if n == 0:
        rep.undecide("C04/%s/(X+t)-X/paths" % g, "FEAS", "z3", "no feasible path")
    if not second:
        rep.not_run.append("X+(Y-X) == Y for %s by normal form (two symbolic quaternions through log and exp: too slow); "
                           "it follows from C01 (group laws) and C03 (exp(log W) = W proved for every valid W)" % g)
        return
    n = 0
    for path in HARNESS.paths(g, "roundtrip_minus_plus"):
        c = ctx_for(rep, "C04/%s/X+(Y-X)[%s]" % (g, path.script), path, g, [("x", "G"), ("y", "G")], seed=seed)
        if c.feasible() == "no":
            continue
        if path.thrown:
            c.must_not_throw()
            continue
        n += 1
        taylor.with_taylor(c, TAU, lambda c=c: c.eq("equals_Y_as_transformation", c.spec.T(c.vec("out")), c.spec.T(c.E["y"])))
    if n == 0:
        rep.undecide("C04/%s/X+(Y-X)/paths" % g, "FEAS", "z3", "no feasible path")
