"""C02  exp is the matrix exponential of hat, uniformly in the size of the tangent.

Contract of <G>TangentBase::exp (t any tangent):
  generic path (every small-angle test takes its closed-form side):
     ray_ode    D T(exp t)[direction t] == T(exp t) * hat(t)      i.e. d/ds T(exp(s u)) = T(exp(s u)) hat(u)
     closed     valid(exp t)                                        (exact)
     to_identity  T(E_gen(t)) - I -> 0 as the angle -> 0 (every monomial of the Taylor-expanded residual carries a small variable)
     safe       no denominator vanishes, no sqrt of a negative number
   => (L-ODE, textbook uniqueness) T(E_gen(s u)) = expm(s hat(u)) for all s > 0, all u.
  every other feasible path (Taylor branches):
     near_generic   |T(exp_small t) - T(E_gen t)| <= TAU * max(1,|linear part|)   for every t on that path
                    (interval bound after Taylor substitution with bounded remainders; inverse powers of the angle must cancel)
     at_zero     T(exp 0) == I exactly (C01 Identity obligation re-used: setIdentity() is exp of the zero tangent)
TAU = 4*Constants<double>::eps: the library's own acceptance scale; a dropped first-order
term (error ~ 1e-8) fails, the legitimate O(theta^2) truncation (<= eps) passes.
hat itself is pinned to the documented basis by C07.
"""
from fractions import Fraction

import mpmath as mp
import numpy as np

from engine import numeval
from . import common as C
from .common import ctx_for
from . import taylor
from engine import fpcheck

HARNESS = C.Harness("h_core.cpp", assertions=True, extra_defines=["VS_STUB_LARGE_INVERSE", "VS_NO_SMALLADJ"])

EPS = Fraction(25, 1125899906842624)     # Constants<double>::eps = 100 * 2^-52
TAU = float(4 * EPS)


def prebuild_targets(tier):
    return HARNESS.targets(C.groups_for(tier, bundles=False))


def run(rep, tier, seed):
    groups = C.groups_for(tier, bundles=False)
    errs = HARNESS.build(groups)
    rep.trust("REAL: machine arithmetic treated as mathematical",
              "L-ODE (textbook): M'(s) = M(s) A, M(0+) = I has the unique solution expm(s A)",
              "A-TRIG / A-SQRT / A-TAYLOR axioms for sin, cos, sqrt",
              "tracer vsym/sym.h; engine/alg.py (sympy rings/groebner); z3 (SAFE, feasibility)")
    rep.assume("NOT decided: uniform floating-point accuracy (cancellation in 1-cos(theta) just above the switch-over), overflow of double for huge inputs",
               "hat is the documented basis expansion (proved under C07)")
    rep.assume("Bundles: every Bundle operation / Jacobian is the block-diagonal of its elements' (proved per layout under C11), so the element-group results proved here carry over")
    for g in groups:
        if g in errs:
            rep.fail("C02/%s/instantiates" % g, "BUILD", "g++", {"compiler_output": errs[g].output[-3000:]},
                     {"failing_input_reproduced": False})
            continue
        check_group(rep, g, seed)


def check_group(rep, g, seed):
    fam = C.family(g)
    C.check_anchor(rep, "%sTangentBase::exp" % fam, C.tangent_base_file(g))
    if fam == "SGal3":
        C.check_anchor(rep, "SGal3TangentBase::fillE", C.tangent_base_file(g))
    HARNESS.prefetch(g, ["exp__"])
    ctxs = []
    for path in HARNESS.paths(g, "exp__"):
        c = ctx_for(rep, "C02/%s/exp[%s]" % (g, path.script), path, g, [("t", "T")],
                    native=HARNESS.native(g, "exp__"), seed=seed)
        if c.feasible() == "no":
            continue
        if path.thrown:
            c.must_not_throw()
            continue
        ctxs.append(c)
    if not ctxs:
        rep.undecide("C02/%s/exp/feasible_paths" % g, "FEAS", "z3", "no feasible path (vacuity guard)")
        return
    # the generic path: the one an O(1) angle follows
    import random
    rng = random.Random(seed + 11)
    generic = None
    for _ in range(20):
        vals = ctxs[0].draw(rng, 0)
        for c in ctxs:
            if numeval.DagEval(c.path, vals).follows_path():
                generic = c
                break
        if generic:
            break
    if generic is None:
        rep.undecide("C02/%s/exp/generic_path" % g, "FEAS", "mpmath", "no path followed by a generic input")
        return
    rep.progress("%s generic path %s" % (g, generic.path.script))
    sp = generic.spec
    out = generic.vec("out")
    Tout = sp.T(out)
    t = generic.E["t"]
    direction = {n: p for n, p in zip(generic.inputs[0].names(), t)}
    generic.eq("ray_ode", generic.D(direction, Tout), np.dot(Tout, sp.hat_h(t)), "DERIV")
    ve = sp.valid_eqs(out)
    if ve:
        generic.eq("closed", np.array(ve, dtype=object), np.array([generic.alg.R.zero] * len(ve), dtype=object))
    generic.check_safe()
    to_identity(rep, generic, Tout - sp.I())
    fpcheck.compare(rep, generic, ["out"], 1e-9, "exp_value", n=10)

    for c in ctxs:
        if c is generic:
            continue
        rep.progress("%s near_generic %s" % (g, c.path.script))
        c.vec("out")
        c.check_safe()      # before the generic branch is attached (its denominators are not this path's)
        gen_view = c.alg.attach(generic.path)
        try:
            gout = gen_view.out("out").reshape(-1)
        except Exception as e:
            rep.undecide("C02/%s/exp[%s]/near_generic" % (g, c.path.script), "TAYLOR", "nf", str(e))
            continue
        taylor.with_taylor(c, TAU, lambda c=c, gout=gout: c.eq("near_generic", c.spec.T(c.vec("out")), c.spec.T(gout), "TAYLOR"))


def to_identity(rep, c, M):
    """every entry of M (on the generic path) tends to 0 with the angle: after the Taylor substitution
    with structured remainders and cancellation of inverse powers, every monomial contains a variable of the tangent"""
    alg = c.alg
    names = list(alg.gen.keys())
    tvars = set(c.inputs[0].names())
    bounds = {n: Fraction(1, 100) for n in alg.gen}
    bad = 0
    n = 0
    for idx in np.ndindex(M.shape):
        p = alg.nf(M[idx])
        if p.is_zero:
            continue
        n += 1
        oname = "%s/to_identity%s" % (c.label, list(idx))
        try:
            q = taylor.expand_trig(c, p, dict(bounds))
        except Exception as e:
            rep.undecide(oname, "TAYLOR", "nf", str(e))
            continue
        okm = True
        for mon in q:
            has_t = False
            for i, e in enumerate(mon):
                if not e:
                    continue
                nm = names[i]
                if nm in tvars:
                    has_t = True
                atom = alg.gen_atom.get(nm)
                if atom and atom[0].kind == "sqrt":
                    has_t = True        # |theta| itself
                if atom and atom[0].kind == "inv":
                    okm = False         # an inverse power of the angle survived
            if not has_t:
                okm = False
        if okm:
            rep.ok(oname, "TAYLOR", "series", detail={"path": c.path.key, "terms": len(q)})
        else:
            # decide numerically: the entry at a tiny angle
            samples = []
            import random
            rng = random.Random(5)
            worst = mp.mpf(0)
            for k in range(4):
                vals = c.draw(rng, 2, ang=mp.mpf("1e-5"))
                if not numeval.DagEval(c.path, vals).follows_path():
                    continue
                gv = numeval.gen_values(alg, vals)
                r = abs(numeval.poly_value(alg, p, gv))
                sc = max([mp.mpf(1)] + [abs(x) for x in vals.values()])
                worst = max(worst, r / sc)
                samples.append(vals)
            if samples and worst > mp.mpf("1e-3"):
                rp = c.make_replay(samples[0])
                rp["failing_input_reproduced"] = True
                rep.fail(oname, "TAYLOR", "series+mpmath", {"path": c.path.key, "value_at_angle_1e-5": mp.nstr(worst, 5),
                                                            "expanded": str(q)[:400]}, rp)
            else:
                rep.standin(oname, "TAYLOR", "mpmath-sampled", {"path": c.path.key, "value_at_angle_1e-5": mp.nstr(worst, 5),
                                                                 "why_not_proved": "series form not closed"})
