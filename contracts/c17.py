"""C17  De Casteljau curve fitting terminates, stays in bounds and interpolates.

CBMC code contracts on the C skeleton that cbmc/decasteljau.py extracts from the real header on
every run (rule list there; every rule must fire).  Two functions under contract:
  n_segments_of   (the outlined initialiser of n_segments)  ensures the MAXIMAL window count
  decasteljau     (index skeleton, all 8 loops closed by loop invariants + decreases clauses,
                   callee replaced by its contract)  ensures: raises iff N<3 | degree>N | k==0; every
                   trajectory index < N; every window has exactly `degree` points; window count ==
                   (N-1)/(d-1) (+1 when closed); curve.size() == windows*segment_k; every Qs index in
                   bounds; no unsigned wrap; termination; at t_01 == 1 the curve point is the
                   window's last control point (ghost index, lemma blend(X,Y,1)=Y from C04).
Domain: bounded (N <= NMAX, k <= KMAX) - 32-bit multiplications and a double division defeat
SAT beyond; reported as bounded-domain.
"""
from cbmc import decasteljau as D

LEVEL = "proof"


def run(rep, tier, seed):
    rep.trust("CBMC 6.11 (goto-cc, goto-instrument --dfcc --enforce-contract --replace-call-with-contract --apply-loop-contracts, SAT back end)",
              "the extraction rules of cbmc/decasteljau.py (listed in the evidence of each obligation); containers modelled by ghost size counters",
              "lemma blend(X,Y,1) = X + (Y - X)*1 = Y (proved for the generic layer under C04) for the 'last point' clause")
    rep.assume("bounded input domain: N <= NMAX, k_interp <= KMAX (stated per obligation); precondition degree >= 2",
               "element values are not modelled (only counts and indices); allocation failure is not modelled")
    nmax_n = 256 if tier == "quick" else 2048
    D.run_nseg(rep, nmax_n)
    if tier == "quick":
        D.run_skeleton(rep, 24, 3, timeout=900)
    else:
        D.run_skeleton(rep, 64, 4, timeout=3600)
    rep.bounded.append({"name": "C17 domain", "detail": "all obligations are for a bounded (N, k) box containing the property's own box N<=16, k<=4 only in the thorough tier"})
