"""TAYLOR obligations: on a path whose condition confines some variables to a
small ball (theta^2 <= eps), a residual that is not identically zero is
bounded soundly:  trig generators of small arguments are replaced by their
Taylor polynomial plus a *bounded remainder variable* (A-TAYLOR), then
|sum c_m x^m| <= sum |c_m| prod bound(x_i)^e_i  (monomial-wise interval bound).
"""
from fractions import Fraction
import math

import mpmath as mp

from engine import numeval
from engine.alg import EngineError

SCALES = (1, 1000)


def _sqrt_up(fr):
    """rational upper bound of sqrt(fr)"""
    f = float(fr)
    r = Fraction(math.sqrt(f) * (1 + 1e-12) + 1e-300)
    while r * r < fr:
        r = r * Fraction(1000001, 1000000)
    return r


def _fr(c):
    return Fraction(int(c.numerator), int(c.denominator))


def decision_bounds(c):
    """bounds |gen| <= b implied by decisions of the form  Q <= const  with Q a
    positive diagonal quadratic form in single generators"""
    alg = c.alg
    names = list(alg.gen.keys())
    out = {}
    for d in c.path.decisions:
        if d.rel != "lt":
            continue
        p = alg.nf(alg.P(d.b) - alg.P(d.a))      # fact: p > 0 (val) or p <= 0 (not val)
        e = p if d.val else -p                    # fact: e > 0 or e >= 0
        const = Fraction(0)
        quad = {}
        ok = True
        for mon, coef in e.items():
            deg = sum(mon)
            if deg == 0:
                const = _fr(coef)
                continue
            nz = [(i, ex) for i, ex in enumerate(mon) if ex]
            if len(nz) == 1 and nz[0][1] == 2 and _fr(coef) < 0:
                quad[names[nz[0][0]]] = -_fr(coef)
            else:
                ok = False
                break
        if not ok or const <= 0 or not quad:
            continue
        for g, a in quad.items():
            b = _sqrt_up(const / a)
            if g not in out or b < out[g]:
                out[g] = b
    return out


def gen_bounds(c, scale):
    """dict generator name -> Fraction bound or None (unbounded)"""
    alg = c.alg
    b = {}
    for i in c.inputs:
        names = i.names()
        if i.kind == "G":
            rot = set()
            sp = i.spec
            # rotation coefficients of a unit-norm part are within [-1, 1]
            try:
                parts = _rot_names(sp, names)
            except Exception:
                parts = set()
            for n in names:
                b[n] = Fraction(1) if n in parts else Fraction(scale)
        else:
            for n in names:
                b[n] = Fraction(scale)
    for n in alg.var_names:
        b.setdefault(n, None)
    db = decision_bounds(c)
    for g, v in db.items():
        if b.get(g) is None or v < b[g]:
            b[g] = v
    # atom generators in creation order
    for name in alg.pool_names[:alg.pool_used]:
        if name in db and name not in alg.gen_atom:
            continue
        atom, role = alg.gen_atom.get(name, (None, None))
        if atom is None:
            continue
        k = atom.kind
        val = None
        if k == "trig":
            val = Fraction(1)
        elif k == "sqrt":
            pb = poly_bound(alg, atom.args[0], b)
            val = _sqrt_up(pb) if pb is not None else None
        elif k == "abs":
            val = poly_bound(alg, atom.args[0], b)
        elif k == "taylor_rem":
            val = atom.info
        elif k == "inv":
            # 1/f is bounded when f = c0 + rest with |rest| <= r < |c0|
            f = atom.args[0]
            c0 = Fraction(0)
            for mon, coef in f.items():
                if sum(mon) == 0:
                    c0 = _fr(coef)
            rest = f - alg.const(c0)
            rb = poly_bound(alg, rest, b)
            if rb is not None and rb < abs(c0):
                val = 1 / (abs(c0) - rb)
        elif k == "atan2":
            val = Fraction(355, 113) + Fraction(1, 1000)
        if name in db and (val is None or db[name] < val):
            val = db[name]
        b[name] = val
    b["UNDEF"] = None
    return b


def _rot_names(sp, names):
    if hasattr(sp, "elems"):
        out = set()
        for o, e in zip(sp.offsets("rep"), sp.elems):
            out |= _rot_names(e, names[o:o + e.rep])
        return out
    idx = {"SO2": [0, 1], "SE2": [2, 3], "SO3": [0, 1, 2, 3], "SE3": [3, 4, 5, 6], "SE_2_3": [3, 4, 5, 6],
           "SGal3": [3, 4, 5, 6]}.get(sp.name, [])
    return set(names[i] for i in idx)


def poly_bound(alg, p, bounds):
    names = list(alg.gen.keys())
    tot = Fraction(0)
    for mon, coef in p.items():
        t = abs(_fr(coef))
        for i, e in enumerate(mon):
            if e:
                bg = bounds.get(names[i])
                if bg is None:
                    return None
                t *= bg ** e
        tot += t
    return tot


def expand_trig(c, p, bounds):
    """replace trig generators whose argument is small by Taylor polynomial + remainder"""
    alg = c.alg
    subs = []
    for (sn, cn) in alg.trig_gens:
        atom = alg.gen_atom[sn][0]
        a = atom.args[0]
        if not alg.uses_gens(p, [sn, cn]):
            continue
        ab = poly_bound(alg, a, bounds)
        if ab is None or ab > Fraction(1, 10):
            continue
        key = ("taylor", sn)
        if key not in c.__dict__.setdefault("_taylor_cache", {}):
            rs = alg.new_gen(("taylor_rem_sin", a))
            rc = alg.new_gen(("taylor_rem_cos", a))
            from engine.alg import Atom
            alg.gen_atom[rs] = (Atom("taylor_rem", (rs,), (a,), ab ** 7 / 5040), "rem")
            alg.gen_atom[rc] = (Atom("taylor_rem", (rc,), (a,), ab ** 6 / 720), "rem")
            S = a - a ** 3 * alg.const(Fraction(1, 6)) + a ** 5 * alg.const(Fraction(1, 120)) + alg.gen[rs]
            Cc = alg.R.one - a ** 2 * alg.const(Fraction(1, 2)) + a ** 4 * alg.const(Fraction(1, 24)) + alg.gen[rc]
            c._taylor_cache[key] = (S, Cc, rs, rc, ab)
        S, Cc, rs, rc, ab = c._taylor_cache[key]
        bounds[rs] = ab ** 7 / 5040
        bounds[rc] = ab ** 6 / 720
        subs.append((alg.gen[sn], S))
        subs.append((alg.gen[cn], Cc))
    if subs:
        p = p.compose(subs)
    return p


def try_bound(c, res, tau):
    """-> (ok, info).  ok True: |res| <= tau*scale for all scales, for every input on this path."""
    alg = c.alg
    info = {}
    if not decision_bounds(c):
        return False, {"taylor": "path has no small-ball condition"}
    worst = None
    for scale in SCALES:
        bounds = gen_bounds(c, scale)
        try:
            p = expand_trig(c, res, bounds)
        except EngineError as e:
            return False, {"taylor": str(e)}
        bounds = gen_bounds(c, scale)
        bnd = poly_bound(alg, p, bounds)
        if bnd is None:
            return False, {"taylor": "residual involves an unbounded generator (e.g. an inverse power of the angle)"}
        info["bound_scale_%g" % scale] = float(bnd)
        if bnd > Fraction(tau) * scale:
            return False, info
    return True, info


class with_taylor:
    """run obligations of ctx c with the Taylor fall-back enabled (tolerance tau)"""

    def __init__(self, c, tau, fn):
        c.taylor_tau = tau
        c.taylor_try = try_bound
        try:
            fn()
        finally:
            c.taylor_tau = None
