"""TAYLOR obligations: on a path whose condition confines some variables to a
small ball (theta^2 <= eps), a residual that is not identically zero is
bounded soundly:  trig generators of small arguments are replaced by their
Taylor polynomial plus a *bounded remainder variable* (A-TAYLOR), then
|sum c_m x^m| <= sum |c_m| prod bound(x_i)^e_i  (monomial-wise interval bound).
"""
import os
from fractions import Fraction
import math

import mpmath as mp

from engine import numeval
from engine.alg import EngineError

SCALES = (1, 1000)


def _sqrt_up(fr):
    """rational upper bound of sqrt(fr)"""
    f = float(fr)
    r = Fraction(math.sqrt(f) * (1 + 1e-12) + 1e-300)
    while r * r < fr:
        r = r * Fraction(1000001, 1000000)
    return r


def _fr(c):
    return Fraction(int(c.numerator), int(c.denominator))


def _root_up(fr, k):
    """rational r with r**k >= fr"""
    r = Fraction(float(fr) ** (1.0 / k) * (1 + 1e-9) + 1e-300)
    while r ** k < fr:
        r = r * Fraction(1000001, 1000000)
    return r


def _root_down(fr, k):
    r = Fraction(float(fr) ** (1.0 / k) * (1 - 1e-9))
    while r ** k > fr:
        r = r * Fraction(999999, 1000000)
    return r


def _const_term(p):
    for mon, coef in p.items():
        if sum(mon) == 0:
            return _fr(coef)
    return Fraction(0)


def _diag_quadratic(alg, q):
    """q == sum a_i g_i^2 with a_i > 0 ?  -> dict gen name -> a_i, else None"""
    names = list(alg.gen.keys())
    quad = {}
    for mon, coef in q.items():
        nz = [(i, ex) for i, ex in enumerate(mon) if ex]
        if len(nz) == 1 and nz[0][1] == 2 and _fr(coef) > 0:
            quad[names[nz[0][0]]] = _fr(coef)
        else:
            return None
    return quad or None


def _unit_trades(c, a):
    """a with even powers of one rotation coefficient w of a unit-norm block traded for the others
    (w^2 = 1 - sum v_i^2, the validity precondition of a group input)"""
    alg = c.alg
    out = []
    for i in c.inputs:
        if i.kind != "G":
            continue
        try:
            blocks = _rot_blocks(i.spec, i.names())
        except Exception:
            continue
        for blk in blocks:
            for w in blk:
                ix = alg.gen_index[w]
                if not any(m[ix] for m in a) or any(m[ix] % 2 for m in a):
                    continue
                rest = alg.R.one - sum((alg.gen[n] ** 2 for n in blk if n != w), alg.R.zero)
                q = alg.R.zero
                for m, coef in a.items():
                    e = m[ix]
                    m2 = list(m)
                    m2[ix] = 0
                    q = q + alg.R.term_new(tuple(m2), coef) * rest ** (e // 2)
                out.append(q)
    return out


def _unit_pair(alg, atom):
    """atan2(y, x) with y = sy*Y, x = sx*X single generators and x^2 + y^2 = 1 (normal form): (Yname, sy, Xname, sx)"""
    y, x = atom.args
    if not (len(y) == 1 and len(x) == 1 and abs(y.LC) == 1 and abs(x.LC) == 1 and sum(y.LM) == 1 and sum(x.LM) == 1):
        return None
    names = list(alg.gen.keys())
    yn, xn = names[list(y.LM).index(1)], names[list(x.LM).index(1)]
    if not alg.is_zero(x * x + y * y - 1):
        return None
    return yn, int(y.LC), xn, int(x.LC)


def decision_facts(c):
    """(upper, lower): bounds |gen| <= u, gen >= l (> 0) implied by the path's decisions.
    Recognised facts:  Q <= const (Q positive diagonal quadratic form),  R^k <= const,  R^k >= const
    for square-root generators R (R >= 0)."""
    alg = c.alg
    # (cached per number of generators: square-root / abs generators created later need their bounds too)
    if getattr(c, "_dfacts", None) is not None and c._dfacts_at == len(alg.gen_atom):
        return c._dfacts
    upper, lower = {}, {}
    sqrt_gens = [(name, atom.args[0]) for name, (atom, role) in alg.gen_atom.items() if atom.kind == "sqrt"]
    abs_gens = [(name, atom.args[0]) for name, (atom, role) in alg.gen_atom.items() if atom.kind == "abs"]

    def up(g, b):
        if g not in upper or b < upper[g]:
            upper[g] = b

    def lo(g, b):
        if g not in lower or b > lower[g]:
            lower[g] = b

    for d in c.path.decisions:
        if d.rel != "lt" or d.is_const == 2:      # (assumed answers of the auto-valid tracer are not facts)
            continue
        raw = alg.P(d.b) - alg.P(d.a)            # fact: raw > 0 (val) or raw <= 0 (not val)
        for p in [raw] + list(alg._alt_forms(alg.nf(raw))) + _unit_trades(c, alg.nf(raw)):
            e = p if d.val else -p                # fact: e > 0 or e >= 0
            const = _const_term(e)
            rest = e - alg.const(const)
            if const > 0:
                quad = _diag_quadratic(alg, -rest)
                if quad:
                    for g, a in quad.items():
                        up(g, _sqrt_up(const / a))
            for (rn, rarg) in sqrt_gens + abs_gens:
                R = alg.gen[rn]
                for k in range(1, 7):
                    if const > 0 and alg.is_zero(rest + R ** k):
                        up(rn, _root_up(const, k))
                    if const < 0 and alg.is_zero(rest - R ** k):
                        lo(rn, _root_down(-const, k))
                # e == c1 - lam * R^2 with R^2 = rarg a polynomial in the inputs (e.g. 4 - 4 w^2)
                if (rn, rarg) in abs_gens:
                    continue
                q = alg.nf(rarg)
                en = alg.nf(e)
                pick = [m for m in q.keys() if sum(m)]
                if pick and not q.is_ground:
                    m0 = pick[0]
                    lam = -_fr(en.get(m0, 0)) / _fr(q[m0]) if m0 in en else None
                    if lam:
                        dd = en + q * alg.const(lam)
                        if dd.is_ground:
                            c1 = _const_term(dd)       # e = c1 - lam * R^2  (>= 0)
                            if lam > 0 and c1 > 0:
                                up(rn, _root_up(c1 / lam, 2))
                            if lam < 0 and c1 < 0:
                                lo(rn, _root_down(c1 / lam, 2))
    # sin a <= s on a first-quadrant angle a (A-TRIG quadrant facts: sin a >= 0, cos a > 0 were derived from the
    # contract 0 <= a < pi/2):  a <= pi s / 2 =: a1 (Jordan),  then a <= s / (1 - a1^2/6)  (sin a >= a - a^3/6)
    names = list(alg.gen.keys())
    for (sn, cn) in alg.trig_gens:
        if sn in upper and upper[sn] <= Fraction(1, 2) and alg.sign.get(sn) == "nonneg" and alg.sign.get(cn) == "pos":
            a = alg.gen_atom[sn][0].args[0]
            if len(a) == 1:
                (mon, coef), = a.items()
                if sum(mon) == 1 and coef > 0:
                    g = names[list(mon).index(1)]
                    sb = upper[sn]
                    a1 = Fraction(15708, 10000) * sb
                    up(g, sb / (1 - a1 * a1 / 6) / _fr(coef))
    # |c*g| <= u  ==>  |g| <= u/|c|
    for (an, aarg) in abs_gens:
        if an in upper and len(aarg) == 1:
            (mon, coef), = aarg.items()
            if sum(mon) == 1:
                up(names[list(mon).index(1)], upper[an] / abs(_fr(coef)))
    # A = atan2(y, x) with x^2 + y^2 = 1:  |y| = |sin A| <= |A|
    for name, (atom, role) in alg.gen_atom.items():
        if atom.kind == "atan2" and name in upper:
            pr = _unit_pair(alg, atom)
            if pr:
                up(pr[0], upper[name])
    # propagate an upper bound of R = sqrt(sum a_i v_i^2) to the v_i
    for (rn, rarg) in sqrt_gens:
        if rn in upper:
            quad = _diag_quadratic(alg, rarg)
            if not quad:
                for alt in _unit_trades(c, alg.nf(rarg)):      # e.g. 1 - w^2 = x^2 + y^2 + z^2 on a unit quaternion
                    quad = _diag_quadratic(alg, alt)
                    if quad:
                        break
            if quad:
                for g, a in quad.items():
                    up(g, upper[rn] / _root_down(a, 2))
    c._dfacts = (upper, lower)
    c._dfacts_at = len(alg.gen_atom)
    return c._dfacts


def decision_bounds(c):
    return decision_facts(c)[0]


EPS = Fraction(25, 2 ** 50)          # Constants<double>::eps
SQE = Fraction(5, 2 ** 25)           # its square root
_LCAND = [Fraction(1, 2), Fraction(1, 16), SQE, SQE / 2, SQE / 8, EPS / 4, EPS / 16, EPS / 64]


def z3_abs_lower(c, f):
    """largest candidate L with  path condition |= |f| >= L  (z3, inverse relations dropped), or None.
    Each answer is an INEQ fact discharged by z3 and cached per path context."""
    cache = c.__dict__.setdefault("_lb_cache", {})
    key = str(f)
    if key in cache:
        return cache[key]
    from engine import smt
    best = None
    try:
        z = smt.Z3Ctx(c.alg, 3000)
        dec = z.decisions(c.path)
        e = z.expr(f)
        base = z.base_constraints(c.extra_facts_z3(z), without_inverses=True) + dec
        def proves(L):
            q = smt.z3.Q(L.numerator, L.denominator)
            r, model, dt = z.check(base + [e < q, e > -q])
            return r == "unsat"
        # |f| >= 2^-k: provable for k >= k*, binary search for the smallest such k in 1..56
        lo, hi = 1, 56
        if proves(Fraction(1, 2 ** hi)):
            while lo < hi:
                mid = (lo + hi) // 2
                if proves(Fraction(1, 2 ** mid)):
                    hi = mid
                else:
                    lo = mid + 1
            best = Fraction(1, 2 ** hi)
    except Exception:
        best = None
    cache[key] = best
    return best


def gen_bounds(c, scale):
    """dict generator name -> Fraction bound or None (unbounded)"""
    alg = c.alg
    b = {}
    for i in c.inputs:
        names = i.names()
        if i.kind == "G":
            rot = set()
            sp = i.spec
            # rotation coefficients of a unit-norm part are within [-1, 1]
            try:
                parts = _rot_names(sp, names)
            except Exception:
                parts = set()
            for n in names:
                b[n] = Fraction(1) if n in parts else Fraction(scale)
        else:
            for n in names:
                b[n] = Fraction(scale)
    for n in alg.var_names:
        b.setdefault(n, None)
    db = decision_bounds(c)
    for g, v in db.items():
        if b.get(g) is None or v < b[g]:
            b[g] = v
    # atom generators in creation order
    for name in alg.pool_names[:alg.pool_used]:
        if name in db and name not in alg.gen_atom:
            continue
        atom, role = alg.gen_atom.get(name, (None, None))
        if atom is None:
            continue
        k = atom.kind
        val = None
        if k == "trig":
            val = Fraction(1)
        elif k == "sqrt":
            pb = poly_bound(alg, atom.args[0], b)
            val = _sqrt_up(pb) if pb is not None else None
        elif k == "abs":
            val = poly_bound(alg, atom.args[0], b)
        elif k == "taylor_rem":
            val = atom.info
        elif k == "inv":
            # 1/f is bounded when f = c0 + rest with |rest| <= r < |c0|
            f = atom.args[0]
            c0 = Fraction(0)
            for mon, coef in f.items():
                if sum(mon) == 0:
                    c0 = _fr(coef)
            rest = f - alg.const(c0)
            rb = poly_bound(alg, rest, b)
            if rb is not None and rb < abs(c0):
                val = 1 / (abs(c0) - rb)
            # 1/R for a generator R with a positive lower bound from the path condition
            lowers = decision_facts(c)[1]
            for gname, lb in lowers.items():
                if f == alg.gen[gname] and lb > 0:
                    val = 1 / lb
            if val is None and getattr(c, "taylor_tau", None) is not None:
                lb = z3_abs_lower(c, f)
                if lb:
                    val = 1 / lb
        elif k == "atan2":
            val = Fraction(355, 113) + Fraction(1, 1000)
        if name in db and (val is None or db[name] < val):
            val = db[name]
        b[name] = val
    b["UNDEF"] = None
    b["DIVZERO"] = None
    return b


def _rot_names(sp, names):
    if hasattr(sp, "elems"):
        out = set()
        for o, e in zip(sp.offsets("rep"), sp.elems):
            out |= _rot_names(e, names[o:o + e.rep])
        return out
    idx = {"SO2": [0, 1], "SE2": [2, 3], "SO3": [0, 1, 2, 3], "SE3": [3, 4, 5, 6], "SE_2_3": [3, 4, 5, 6],
           "SGal3": [3, 4, 5, 6]}.get(sp.name, [])
    return set(names[i] for i in idx)


def _rot_blocks(sp, names):
    if hasattr(sp, "elems"):
        out = []
        for o, e in zip(sp.offsets("rep"), sp.elems):
            out += _rot_blocks(e, names[o:o + e.rep])
        return out
    idx = {"SO2": [0, 1], "SE2": [2, 3], "SO3": [0, 1, 2, 3], "SE3": [3, 4, 5, 6], "SE_2_3": [3, 4, 5, 6],
           "SGal3": [3, 4, 5, 6]}.get(sp.name, [])
    return [[names[i] for i in idx]] if idx else []


def _path_sign(c, name):
    """+1 / -1 when the path condition fixes the sign of input variable `name` (non-strictly), else None"""
    alg = c.alg
    g = alg.gen[name]
    for d in c.path.decisions:
        if d.rel != "lt":
            continue
        e = alg.nf(alg.P(d.b) - alg.P(d.a))
        if not d.val:
            e = -e
        if e == g:
            return 1
        if e == -g:
            return -1
    return None


def near_unit_shifts(c, p, bounds):
    """A unit-norm rotation block whose other coefficients are confined to a small ball has its remaining
    coefficient w within s = sum u_i^2 of +1 or -1 (|w| = sqrt(1 - sum v_i^2) in [1 - s, 1]); with the sign
    fixed by the path condition,  w = sign * (1 - U),  0 <= U <= s.  Returns p with w replaced so."""
    from engine.alg import Atom
    alg = c.alg
    db = decision_bounds(c)
    subs = []
    cache = c.__dict__.setdefault("_unit_shift_cache", {})
    for i in c.inputs:
        if i.kind != "G":
            continue
        try:
            blocks = _rot_blocks(i.spec, i.names())
        except Exception:
            continue
        for blk in blocks:
            for w in blk:
                others = [n for n in blk if n != w]
                if not all(n in db for n in others) or not alg.uses_gens(p, [w]):
                    continue
                sm = sum(db[n] ** 2 for n in others)
                if sm > Fraction(1, 4):
                    continue
                sg = _path_sign(c, w)
                if sg is None:
                    continue
                if w not in cache:
                    U = alg.new_gen(("unit_shift", w))
                    alg.gen_atom[U] = (Atom("taylor_rem", (U,), (alg.gen[w],), sm), "rem")
                    cache[w] = U
                U = cache[w]
                alg.gen_atom[U][0].info = sm
                bounds[U] = sm
                subs.append((alg.gen[w], alg.const(sg) * (alg.R.one - alg.gen[U])))
    if subs:
        p = p.compose(subs)
    return p


def poly_bound(alg, p, bounds):
    names = list(alg.gen.keys())
    tot = Fraction(0)
    for mon, coef in p.items():
        t = abs(_fr(coef))
        for i, e in enumerate(mon):
            if e:
                bg = bounds.get(names[i])
                if bg is None:
                    return None
                t *= bg ** e
        tot += t
    return tot


def expand_trig(c, p, bounds):
    """replace trig generators whose argument a is small by Taylor polynomial + a^n * sigma with a
    bounded remainder factor sigma (A-TAYLOR, alternating-series remainder):
       sin a = a - a^3/6 + a^5/120 - a^7/5040 + a^9 * ss,   |ss| <= 1/362880
       cos a = 1 - a^2/2 + a^4/24 - a^6/720 + a^8 * sc,     |sc| <= 1/40320
    Writing the remainder as a power of a times a bounded factor lets inverse powers of the
    angle cancel exactly in the normal form."""
    alg = c.alg
    subs = []
    for (sn, cn) in alg.trig_gens:
        atom = alg.gen_atom[sn][0]
        a = atom.args[0]
        if not alg.uses_gens(p, [sn, cn]):
            continue
        ab = poly_bound(alg, a, bounds)
        if ab is None or ab > Fraction(1, 10):
            continue
        if len(a) > 3 or len(p) > 400:
            continue       # substituting a 9th-degree series in a many-term argument explodes; |sin|,|cos| <= 1 is used instead
        key = ("taylor", sn)
        if key not in c.__dict__.setdefault("_taylor_cache", {}):
            rs = alg.new_gen(("taylor_rem_sin", a))
            rc = alg.new_gen(("taylor_rem_cos", a))
            from engine.alg import Atom
            alg.gen_atom[rs] = (Atom("taylor_rem", (rs,), (a,), Fraction(1, 362880)), "rem")
            alg.gen_atom[rc] = (Atom("taylor_rem", (rc,), (a,), Fraction(1, 40320)), "rem")
            q = lambda n, d: alg.const(Fraction(n, d))
            S = a - a ** 3 * q(1, 6) + a ** 5 * q(1, 120) - a ** 7 * q(1, 5040) + a ** 9 * alg.gen[rs]
            Cc = (alg.R.one - a ** 2 * q(1, 2) + a ** 4 * q(1, 24) - a ** 6 * q(1, 720) + a ** 8 * alg.gen[rc])
            c._taylor_cache[key] = (S, Cc, rs, rc)
        S, Cc, rs, rc = c._taylor_cache[key]
        bounds[rs] = Fraction(1, 362880)
        bounds[rc] = Fraction(1, 40320)
        subs.append((alg.gen[sn], S))
        subs.append((alg.gen[cn], Cc))
    # A = atan2(y, x) small with (x, y) a unit pair of input variables:  y = sin A, x = cos A  (A-ATAN2), same expansion
    names_ = list(alg.gen.keys())
    for name, (atom, role) in list(alg.gen_atom.items()):
        if atom.kind != "atan2":
            continue
        ab = bounds.get(name)
        if ab is None or ab > Fraction(1, 10):
            continue
        y, x = atom.args
        pr = _unit_pair(alg, atom)
        if not pr:
            continue
        yn, sy, xn, sx = pr
        if yn in alg.gen_atom and alg.gen_atom[yn][0].kind == "sqrt" and xn not in alg.gen_atom:
            # Y = |sin A| is a square-root generator tied to other inputs (Y^2 = v.v): keep Y, expand A and X in Y
            #   A = asin(y) = y + y^3/6 + 3y^5/40 + 5y^7/112 + y^9 r1,  0 <= r1 <= 1/32      (|y| <= 1/10, |A| < pi/2)
            #   x = cos A = sqrt(1 - y^2) = 1 - y^2/2 - y^4/8 - y^6/16 - y^8 r2,  0 <= r2 <= 1/24
            yb = bounds.get(yn)
            if yb is None or yb > Fraction(1, 10) or not alg.uses_gens(p, [name, xn] + [an for an, (aat, _) in alg.gen_atom.items() if aat.kind == "abs"]):
                continue
            key = ("taylor_asin", name)
            if key not in c.__dict__.setdefault("_taylor_cache", {}):
                from engine.alg import Atom
                r1 = alg.new_gen(("taylor_rem_asin", y))
                r2 = alg.new_gen(("taylor_rem_sqrt1m", y))
                alg.gen_atom[r1] = (Atom("taylor_rem", (r1,), (y,), Fraction(1, 32)), "rem")
                alg.gen_atom[r2] = (Atom("taylor_rem", (r2,), (y,), Fraction(1, 24)), "rem")
                q = lambda n, d: alg.const(Fraction(n, d))
                Aser = y + y ** 3 * q(1, 6) + y ** 5 * q(3, 40) + y ** 7 * q(5, 112) + y ** 9 * alg.gen[r1]
                Xser = (alg.R.one - y ** 2 * q(1, 2) - y ** 4 * q(1, 8) - y ** 6 * q(1, 16) - y ** 8 * alg.gen[r2]) * alg.const(sx)
                c._taylor_cache[key] = (Aser, Xser, r1, r2)
            Aser, Xser, r1, r2 = c._taylor_cache[key]
            bounds[r1] = Fraction(1, 32)
            bounds[r2] = Fraction(1, 24)
            subs.append((alg.gen[name], Aser))
            subs.append((alg.gen[xn], Xser))
            # |k*A| = |k| * sign(y) * A  with sign(y) = sy (Y >= 0)
            for an, (aat, _) in list(alg.gen_atom.items()):
                if aat.kind == "abs" and len(aat.args[0]) == 1:
                    (mon, coef), = aat.args[0].items()
                    if sum(mon) == 1 and names_[list(mon).index(1)] == name:
                        subs.append((alg.gen[an], Aser * alg.const(abs(_fr(coef)) * sy)))
            continue
        if sy != 1 or sx != 1:
            continue
        if yn in alg.gen_atom or xn in alg.gen_atom or not alg.uses_gens(p, [yn, xn]):
            continue
        key = ("taylor_atan2", name)
        if key not in c.__dict__.setdefault("_taylor_cache", {}):
            from engine.alg import Atom
            A = alg.gen[name]
            rs = alg.new_gen(("taylor_rem_sin", A))
            rc = alg.new_gen(("taylor_rem_cos", A))
            alg.gen_atom[rs] = (Atom("taylor_rem", (rs,), (A,), Fraction(1, 362880)), "rem")
            alg.gen_atom[rc] = (Atom("taylor_rem", (rc,), (A,), Fraction(1, 40320)), "rem")
            q = lambda n, d: alg.const(Fraction(n, d))
            S = A - A ** 3 * q(1, 6) + A ** 5 * q(1, 120) - A ** 7 * q(1, 5040) + A ** 9 * alg.gen[rs]
            Cc = (alg.R.one - A ** 2 * q(1, 2) + A ** 4 * q(1, 24) - A ** 6 * q(1, 720) + A ** 8 * alg.gen[rc])
            c._taylor_cache[key] = (S, Cc, rs, rc)
        S, Cc, rs, rc = c._taylor_cache[key]
        bounds[rs] = Fraction(1, 362880)
        bounds[rc] = Fraction(1, 40320)
        subs.append((y, S))
        subs.append((x, Cc))
    subs = subs + _inverse_trig_subs(c, p, subs, bounds)
    if subs:
        # size guard: a generator of exponent e replaced by an n-term polynomial multiplies the term count by ~n^e
        names = list(alg.gen.keys())
        width = {str(g): len(q) for (g, q) in subs}
        est = 0
        for mon in p:
            t = 1
            for i, e in enumerate(mon):
                if e and names[i] in width:
                    t *= width[names[i]] ** e
            est += t
            if est > 60000:
                raise EngineError("Taylor expansion too large (more than 60000 terms before reduction)")
        p = alg.nf(p.compose(subs))
    return p


def _inverse_trig_subs(c, p, subs, bounds):
    """Laurent step.  An inverse generator I_f whose base f contains expanded trig generators:
    with f' = f[Taylor] = c0 * M * (1 - delta)   (M a monomial in generators, |delta| <= 1/2)
       1/f = (1/c0) * (1/M) * K,   K = 1/(1 - delta) = 1 + delta + delta^2 * K   (exact),
    K a new generator bounded by 1/(1 - bound(delta)).  The inverse monomial 1/M is expressed with
    the inverse generators of its factors, so that inverse powers of the angle cancel in the normal form."""
    from engine.alg import Atom
    alg = c.alg
    R = alg.R
    names = list(alg.gen.keys())
    expanded = [str(g) for (g, _) in subs]
    out = []
    cache = c.__dict__.setdefault("_taylor_inv_cache", {})
    for (base, iname) in list(alg.inv_gens):
        if not alg.uses_gens(p, [iname]):
            continue
        fb = base.compose(subs) if alg.uses_gens(base, expanded) else base
        if fb.is_zero or len(fb) > 200:
            continue
        mons = list(fb.keys())
        mins = [min(m[i] for m in mons) for i in range(len(names))]
        M = R.one
        for i, e in enumerate(mins):
            if e:
                M = M * alg.gen[names[i]] ** e
        rho = R.zero
        for m, coef in fb.items():
            rho = rho + R.term_new(tuple(a - b for a, b in zip(m, mins)), coef)
        c0 = _const_term(rho)
        if c0 == 0:
            continue
        delta = (alg.const(c0) - rho) * alg.const(1 / c0)
        if delta.is_zero:
            continue
        db = poly_bound(alg, delta, bounds)
        if db is None or db > Fraction(1, 2):
            continue
        if iname not in cache:
            nsafe = len(alg.safe_obligations)
            IM = R.one
            for i, e in enumerate(mins):
                if e:
                    IM = IM * alg.inverse(alg.gen[names[i]]) ** e
            del alg.safe_obligations[nsafe:]      # M != 0 is implied by f != 0, which is already an obligation
            K = alg.new_gen(("taylor_inv", base))
            alg.gen_atom[K] = (Atom("taylor_rem", (K,), (base,), Fraction(2)), "rem")
            cache[iname] = (IM, K)
        IM, K = cache[iname]
        kb = 1 / (1 - db)
        alg.gen_atom[K][0].info = kb
        bounds[K] = kb
        out.append((alg.gen[iname], alg.const(1 / c0) * IM * (R.one + delta + delta * delta * alg.gen[K])))
    return out


def try_bound(c, res, tau):
    """-> (ok, info).  ok True: |res| <= tau*scale for all scales, for every input on this path."""
    alg = c.alg
    info = {}
    if not decision_bounds(c):
        if os.environ.get("VERIF_TAYLOR_DEBUG"):
            import sys
            sys.stderr.write("NOBALL %s\n" % c.path.key)
        return False, {"taylor": "path has no small-ball condition"}
    worst = None
    for scale in SCALES:
        bounds = gen_bounds(c, scale)
        try:
            p = expand_trig(c, res, bounds)
        except EngineError as e:
            return False, {"taylor": str(e)}
        bounds = gen_bounds(c, scale)
        bnd = poly_bound(alg, p, bounds)
        if bnd is not None and bnd > Fraction(tau) * scale:
            p = near_unit_shifts(c, p, bounds)
            bnd = poly_bound(alg, p, bounds)
        if bnd is None:
            if os.environ.get("VERIF_TAYLOR_DEBUG"):
                names = list(alg.gen.keys())
                used = set()
                for mon in p:
                    for i, e in enumerate(mon):
                        if e and bounds.get(names[i]) is None:
                            used.add(names[i])
                import sys
                for u in sorted(used):
                    at = alg.gen_atom.get(u, (None, None))[0]
                    sys.stderr.write("UNBOUNDED %s %s %s | %s\n" % (c.path.key, u, at.kind if at else "var", str(at.args[0])[:200] if at else ""))
            return False, {"taylor": "residual involves an unbounded generator (e.g. an inverse power of the angle)"}
        info["bound_scale_%g" % scale] = float(bnd)
        if bnd > Fraction(tau) * scale:
            if os.environ.get("VERIF_TAYLOR_DEBUG"):
                import sys
                sys.stderr.write("ABOVE %s scale %g bound %.3g terms %d\n" % (c.path.key, scale, float(bnd), len(p)))
                if len(p) <= 20:
                    sys.stderr.write("   P = %s\n" % str(p)[:400])
                    names = list(alg.gen.keys())
                    for nm in sorted(set(names[i] for mon in p for i, e in enumerate(mon) if e)):
                        at = alg.gen_atom.get(nm, (None, None))[0]
                        sys.stderr.write("   %s bound %s %s %s\n" % (nm, float(bounds[nm]) if bounds.get(nm) is not None else None, at.kind if at else "var", [str(a)[:100] for a in at.args] if at else ""))
            return False, info
    return True, info


class with_taylor:
    """run obligations of ctx c with the Taylor fall-back enabled (tolerance tau)"""

    def __init__(self, c, tau, fn):
        c.taylor_tau = tau
        c.taylor_try = try_bound
        try:
            fn()
        finally:
            c.taylor_tau = None


def _z3_proves_assumed(c, p, d):
    """z3: precondition + the path's NON-assumed decisions + negated claim is unsatisfiable"""
    # (bounded effort: at most ~2 s of z3 per path context, 1 s per query - bundles of 3D groups have thousands of paths)
    if getattr(c, "_assume_z3_s", 0.0) > 2.0:
        return False
    try:
        from engine import smt
        if getattr(c, "_assume_ctx", None) is None:
            z = smt.Z3Ctx(c.alg, 1000)
            cs = []
            for dd in c.path.decisions:
                if dd.is_const == 2:
                    continue
                e = z.expr(c.alg.nf(c.alg.P(dd.b) - c.alg.P(dd.a)))
                if dd.rel == "lt":
                    cs.append(e > 0 if dd.val else e <= 0)
                else:
                    cs.append(e == 0 if dd.val else e != 0)
            c._assume_ctx = (z, cs)
        z, cs = c._assume_ctx
        e = z.expr(p)
        neg = (e <= 0) if d.val else (e > 0)
        gens = z.gens_of([p])
        base = z.base_constraints(c.extra_facts_z3(z), without_inverses=True)
        r, model, dt = z.check(base + cs + [neg])
        c._assume_z3_s = getattr(c, "_assume_z3_s", 0.0) + dt
        return r == "unsat"
    except Exception:
        return False


def prove_assumed(c, p, d):
    """the auto-valid tracer answered a validity test `|x - 1| <> eps` "within the threshold"; p = nf(b - a) is its margin
    (the answer claims p > 0 if d.val else p <= 0).  Proved when p = c0 + r with sign(c0) as claimed and |r| < |c0| on
    the path (interval bound, same machinery as the TAYLOR obligations; the assumed decisions themselves are never used as facts)."""
    if d.rel != "lt":
        return False
    alg = c.alg
    if _z3_proves_assumed(c, p, d):
        return True
    try:
        c0 = _const_term(p)
        if c0 == 0 or (c0 > 0) != bool(d.val):
            return False
        r = p - alg.const(c0)
        old_tau = getattr(c, "taylor_tau", None)
        c.taylor_tau = old_tau or 1
        try:
            for scale in SCALES:
                bounds = gen_bounds(c, scale)
                q = expand_trig(c, r, bounds)
                bounds = gen_bounds(c, scale)
                b = poly_bound(alg, q, bounds)
                if b is None or b >= abs(c0):
                    q = near_unit_shifts(c, q, bounds)
                    b = poly_bound(alg, q, bounds)
                    if b is None or b >= abs(c0):
                        return False
        finally:
            c.taylor_tau = old_tau
        return True
    except EngineError:
        return False


from engine import vc as _vc
_vc.ASSUMPTION_PROVER = prove_assumed
