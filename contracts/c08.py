"""C08  elements stay valid under arbitrarily long operation histories.

Representation invariant  Inv(X) :  | ||rot(X)||^2 - 1 | <= eps   (eps = Constants<Scalar>::eps; it implies the
constructor's own test | ||rot|| - 1 | < eps).  For every element-returning primitive of the statement
(exp, compose, inverse, between, rplus / +=, *=, cast, Random, Identity), with MANIF_ASSERT compiled IN:
    requires Inv(every group input)      (NOT exact unit norm)
    ensures  Inv(result)   and   no feasible path throws
Proof per path: the squared norm of the result is reduced, modulo the definitions nA = ||rot(a)||^2 (fresh
variables), to a polynomial in nA, nB only (the norm is multiplicative: Groebner elimination); z3 then proves
|N_out - 1| <= eps and the infeasibility of every throwing path from 1-eps <= nA, nB <= 1+eps and the path
condition (the renormalisation by approxSqrtInv is the contraction d -> O(d^3)).
The bound is independent of the history length (invariant after every public operation); interpolation and
averaging only combine these primitives.  Assumed, not proved: each operation's accumulated ROUNDING perturbation
of ||rot||^2 stays below eps/4.
"""
from fractions import Fraction

import numpy as np

from engine import smt
from . import common as C
from .common import ctx_for

HARNESS = C.Harness("h_valid.cpp", assertions=True, extra_defines=["VS_STUB_LARGE_INVERSE"])
EPS = Fraction(25, 1125899906842624)
ROT_SLOT = {"SO2": (0, 2), "SE2": (2, 4), "SO3": (0, 4), "SE3": (3, 7), "SE_2_3": (3, 7), "SGal3": (3, 7)}
OPS = [("compose", [("x", "G"), ("y", "G")]), ("inverse", [("x", "G")]), ("between", [("x", "G"), ("y", "G")]),
       ("exp", [("t", "T")]), ("rplus", [("x", "G"), ("t", "T")]), ("plus_assign", [("x", "G"), ("t", "T")]),
       ("mul_assign", [("x", "G"), ("y", "G")]), ("cast", [("x", "G")]), ("random", []), ("set_random", [("x", "G")]),
       ("identity", [])]


def prebuild_targets(tier):
    return HARNESS.targets([g for g in C.SIMPLE], native=True)


def run(rep, tier, seed):
    groups = list(C.SIMPLE)
    import os
    if os.environ.get("VERIF_GROUPS"):
        groups = [g for g in os.environ["VERIF_GROUPS"].split(";") if g in C.SIMPLE]
    errs = HARNESS.build(groups)
    rep.trust("REAL: machine arithmetic treated as mathematical", "z3 (QF_NRA) for the scalar inequalities; Groebner elimination (sympy) for the norm identity",
              "A-RAND: random<Scalar>(lo,hi) in [lo,hi]; A-TRIG, A-SQRT")
    rep.assume("each operation's accumulated rounding perturbation of ||rot||^2 is below eps/4 (bit-precise floating point is outside every installed back end)",
               "Rn and Bundles have no / only element-wise rotation parts (C11); interpolation and averaging return elements only through the primitives proved here")
    C.check_anchor(rep, "approxSqrtInv", "include/manif/impl/utils.h")
    for g in groups:
        if g in errs:
            rep.fail("C08/%s/instantiates" % g, "BUILD", "g++", {"compiler_output": errs[g].output[-3000:]},
                     {"failing_input_reproduced": False})
            continue
        C.check_anchor(rep, "%sBase::compose" % g, C.base_file(g))
        check_group(rep, g, seed)


def concrete_input(c, g, model, norm_of):
    """an input realising the solver's squared norms: a valid element with its rotation part scaled by sqrt(n)"""
    import random
    import mpmath as mp
    from engine import vc
    lo, hi = ROT_SLOT[g]
    rng = random.Random(7)
    vals = {}
    for i in c.inputs:
        names = i.names()
        if i.kind == "G":
            xs = vc.sample_group(g, rng, 0)
            m = model.get(norm_of.get(i.prefix)) if model else None
            if m is not None:
                s = mp.sqrt(mp.mpf(m.numerator) / mp.mpf(m.denominator))
                xs = [x * s if lo <= k < hi else x for k, x in enumerate(xs)]
        else:
            xs = [mp.mpf(rng.uniform(-1, 1)) for _ in names]
            for k, n in enumerate(names):
                m = model.get(n) if model else None
                if m is not None:
                    xs[k] = mp.mpf(m.numerator) / mp.mpf(m.denominator)
        for n, x in zip(names, xs):
            vals[n] = x
    rp = c.make_replay(vals)
    no = rp.get("native_outputs") or {}
    bad = bool(rp.get("native_thrown"))
    if "out" in no:
        y = no["out"]
        dev = abs(sum(v * v for v in y[lo:hi]) - 1.0)
        rp["native_result_sqnorm_deviation"] = dev
        bad = bad or dev > float(EPS)
    rp["failing_input_reproduced"] = bad
    return rp


def check_group(rep, g, seed):
    lo, hi = ROT_SLOT[g]
    HARNESS.prefetch(g, [o for o, _ in OPS])
    z3 = smt.z3
    eps = z3.RealVal(str(EPS))
    for op, decl in OPS:
        nfeas = 0
        for path in HARNESS.paths(g, op):
            rep.check_budget()
            c = ctx_for(rep, "C08/%s/%s[%s]" % (g, op, path.script), path, g, decl, native=HARNESS.native(g, op),
                        seed=seed, exact_valid=False)
            alg = c.alg
            # norm variables for the group inputs
            norm_names = []
            norm_of = {}
            for i in c.inputs:
                if i.kind == "G":
                    nm = alg.new_gen(("free", i.prefix + "_sqnorm"))
                    from engine.alg import Atom
                    rot = c.E[i.prefix][lo:hi]
                    sq = sum((x * x for x in rot), alg.R.zero)
                    alg.gen_atom[nm] = (Atom("normvar", (nm,), (sq,)), "normvar")
                    alg.add_relation(sq - alg.gen[nm])
                    norm_names.append(nm)
                    norm_of[i.prefix] = nm
            z = smt.Z3Ctx(alg, 15000)
            dec = z.decisions(path)
            facts = []
            for nm in norm_names:
                facts += [z.zv(nm) >= 1 - eps, z.zv(nm) <= 1 + eps]
            for (v, lo_, hi_) in path.rands:
                facts += [z.expr(alg.P(v)) >= z.expr(alg.P(lo_)), z.expr(alg.P(v)) <= z.expr(alg.P(hi_))]
            dpolys = [alg.nf(alg.P(d.b) - alg.P(d.a)) for d in path.decisions] + [alg.gen[n] for n in norm_names]
            dpolys += [alg.P(v) for (v, _, _) in path.rands]
            if path.thrown:
                r, model, dt = z.check(z.base_constraints(only_gens=z.gens_of(dpolys)) + dec + facts)
                nm = "%s/throwing_path_infeasible" % c.label
                if r == "unsat":
                    rep.ok(nm, "INEQ", "z3", dt, detail={"thrown": path.thrown})
                elif r == "sat":
                    rep.fail(nm, "INEQ", "z3", {"path": path.key, "thrown": path.thrown,
                                                "model": {k: str(v) for k, v in (model or {}).items() if v is not None}},
                             concrete_input(c, g, model, norm_of), dt)
                else:
                    rep.standin(nm, "INEQ", "z3-unknown", {"path": path.key, "thrown": path.thrown})
                continue
            out = c.vec("out")
            N = alg.nf(sum((x * x for x in out[lo:hi]), alg.R.zero))
            e = z.expr(N - 1)
            base = z.base_constraints(only_gens=z.gens_of(dpolys + [N]))          # after N was built (atoms)
            r0, _, _ = z.check(base + dec + facts)
            if r0 == "unsat":
                continue                         # infeasible path
            nfeas += 1
            r, model, dt = z.check(base + dec + facts + [z3.Or(e > eps, e < -eps)])
            nm = "%s/result_satisfies_invariant" % c.label
            if r == "unsat":
                rep.ok(nm, "INEQ", "nf+z3", dt, detail={"squared_norm_of_result": str(N)[:200]})
            elif r == "sat":
                rep.fail(nm, "INEQ", "nf+z3", {"path": path.key, "squared_norm_of_result": str(N)[:300],
                                               "model": {k: str(v) for k, v in (model or {}).items() if v is not None}},
                         concrete_input(c, g, model, norm_of), dt)
            else:
                rep.standin(nm, "INEQ", "z3-unknown", {"path": path.key, "squared_norm_of_result": str(N)[:200]})
        if nfeas == 0:
            rep.undecide("C08/%s/%s/feasible_paths" % (g, op), "FEAS", "z3", "no feasible non-throwing path (vacuity guard)")
