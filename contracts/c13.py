"""C13  construction, accessors and conversions are consistent and validated.

Contracts (per group family; spec functions from contracts/spec.py):
  constructors      the element built from (angle | complex | quaternion | angle-axis with unit axis | roll-pitch-yaw |
                    rotation + translation/velocity/time | sub-group element | raw coefficients) has exactly the
                    coefficients / the rotation matrix the documentation promises
                      angle:       coeffs == (cos a, sin a),  angle() == a for a in (-pi, pi)
                      angle-axis:  R(X) == I + sin(a) [n]x + (1 - cos a) [n]x^2           (Rodrigues)
                      rpy:         R(X) == Rz(yaw) Ry(pitch) Rx(roll)  for ALL angles (no gimbal special case)
  accessors         rotation() == R_spec, R^T R == I, det R == 1, translation()/x()/.../quat()/transform()/isometry()
                    return the stored quantities; feeding the accessors back reproduces the element
  validation        assertions on : the constructor from raw data throws invalid_argument  IFF  not(| ||rot|| - 1 | < eps)
                                    (path-condition reading: the throwing path is infeasible inside the threshold,
                                     the non-throwing path is infeasible outside it)
                    NDEBUG        : no path throws
  normalize()       on non-degenerate data makes the rotation part exactly unit-norm and leaves the rest unchanged
  cast<>()          returns a valid element denoting the same transformation (structural contract)
Not decided: precision of cast to a narrower scalar (REAL); Eigen isometry -> quaternion (Shepperd branches) for SE3/SE_2_3/SGal3.
"""
from fractions import Fraction

import numpy as np

from engine import smt
from . import common as C
from .common import ctx_for
from . import spec as S

HARNESS = C.Harness("h_ctor.cpp", assertions=True)
HARNESS_NDEBUG = C.Harness("h_ctor.cpp", assertions=False)

EPS = Fraction(25, 1125899906842624)
ROT_SLOT = {"SO2": (0, 2), "SE2": (2, 4), "SO3": (0, 4), "SE3": (3, 7), "SE_2_3": (3, 7), "SGal3": (3, 7)}
QUAT = ("SO3", "SE3", "SE_2_3", "SGal3")


def prebuild_targets(tier):
    gs = C.groups_for(tier, bundles=False)
    return HARNESS.targets(gs) + HARNESS_NDEBUG.targets(gs, native=False)


def run(rep, tier, seed):
    groups = C.groups_for(tier, bundles=False)
    errs = HARNESS.build(groups)
    errs2 = HARNESS_NDEBUG.build(groups, native=False)
    rep.trust("REAL: machine arithmetic treated as mathematical",
              "A-TRIG (incl. half-angle rewriting), A-SQRT, A-ATAN2; Eigen::AngleAxis / Quaternion / Rotation2D kernels are executed, not assumed",
              "tracer vsym/sym.h; engine/alg.py; z3 (validation threshold reading)")
    rep.assume("NOT decided: 'equal to the precision of the narrower type' for cast<>() (needs rounding)",
               "angles are compared modulo 2*pi: angle() == a is claimed for a in (-pi, pi)")
    rep.not_run.append("Eigen isometry constructors of SE_2_3 / SGal3 (same Eigen::Quaternion(Matrix3) kernel as SE3's, which is under contract)")
    for g in groups:
        if g in errs or g in errs2:
            e = errs.get(g) or errs2.get(g)
            rep.fail("C13/%s/instantiates" % g, "BUILD", "g++", {"compiler_output": e.output[-3000:]},
                     {"failing_input_reproduced": False})
            continue
        check_group(rep, g, seed)


def _zero(c, n):
    return np.array([c.alg.R.zero] * n, dtype=object)


def _rot_of(sp, coeffs):
    return S.rquat(coeffs, sp.zero, sp.one)


def _paths(rep, harness, g, scn, decl, seed, exact_valid=True, label=None):
    out = []
    for path in harness.paths(g, scn):
        c = ctx_for(rep, "C13/%s/%s[%s]" % (g, label or scn, path.script), path, g, decl,
                    native=harness.native(g, scn) if harness is HARNESS else None, seed=seed, exact_valid=exact_valid)
        out.append(c)
    return out


def check_group(rep, g, seed):
    fam = C.family(g)
    hdr = "include/manif/impl/%s.h" % C.GROUP_FILES[fam]
    C.check_anchor(rep, "%s::%s (constructors)" % (fam, fam), hdr, r"\b%s\(" % ("Rn" if fam == "Rn" else fam))
    C.check_anchor(rep, "%sBase::transform" % fam, C.base_file(g))
    if fam != "Rn":
        C.check_anchor(rep, "AssignmentEvaluatorImpl<%sBase>::run_impl" % fam, C.base_file(g), r"AssignmentEvaluatorImpl")
        C.check_anchor(rep, "%sBase::normalize" % fam, C.base_file(g))
    scns = HARNESS and None
    HARNESS.prefetch(g, ["ctor_coeffs", "copy_ctor", "cast", "accessors"])
    HARNESS_NDEBUG.prefetch(g, ["ctor_coeffs"])
    sp0 = S.make_spec(g, 0, 1)
    n = sp0.rep

    # ---- validation at construction
    validation(rep, g, seed, n)

    # ---- copy / assignment preserve coefficients exactly
    for c in _paths(rep, HARNESS, g, "copy_ctor", [("x", "G")], seed):
        if c.feasible() == "no" or c.path.thrown:
            continue
        c.eq("copy_constructor_preserves_coefficients", c.vec("Y"), c.E["x"])
        c.eq("assignment_preserves_coefficients", c.vec("Z"), c.E["x"])

    # ---- cast
    nf = 0
    for c in _paths(rep, HARNESS, g, "cast", [("x", "G")], seed):
        if c.feasible() == "no":
            continue
        if c.path.thrown:
            c.must_not_throw()
            continue
        nf += 1
        sp = c.spec
        c.eq("cast_same_transformation", sp.T(c.vec("Y")), sp.T(c.E["x"]))
        ve = sp.valid_eqs(c.vec("Y"))
        if ve:
            c.eq("cast_valid", np.array(ve, dtype=object), _zero(c, len(ve)))
    if nf == 0:
        rep.undecide("C13/%s/cast/feasible_paths" % g, "FEAS", "z3", "no feasible path")

    # ---- accessors
    for c in _paths(rep, HARNESS, g, "accessors", [("x", "G")], seed):
        if c.feasible() == "no":
            continue
        if c.path.thrown:
            c.must_not_throw()
            continue
        accessors(rep, c, g)

    if fam == "Rn":
        return
    cast_widening(rep, g, seed)
    HARNESS.prefetch(g, ["normalize"])
    normalize(rep, g, seed, n)
    if fam in ("SO2", "SE2"):
        HARNESS.prefetch(g, ["ctor_angle", "ctor_reim"])
        angle_ctor(rep, g, seed)
    if fam == "SE2":
        HARNESS.prefetch(g, ["ctor_complex", "ctor_isometry"])
        for c in _paths(rep, HARNESS, g, "ctor_complex", [("p", "M", 2), ("q", "G", "SO2")], seed):
            if c.feasible() == "no":
                continue
            if c.path.thrown:
                c.must_not_throw()
                continue
            want = np.concatenate([c.E["p"], c.E["q"]])
            c.eq("from_translation_and_complex", c.vec("X"), want)
            c.eq("from_xy_and_complex", c.vec("Y"), want)
        for c in _paths(rep, HARNESS, g, "ctor_isometry", [("x", "G")], seed):
            if c.feasible() == "no":
                continue
            if c.path.thrown:
                c.must_not_throw()
                continue
            c.eq("from_isometry_same_transformation", c.spec.T(c.vec("X")), c.spec.T(c.E["x"]))
    if fam in QUAT:
        HARNESS.prefetch(g, ["ctor_quat", "ctor_angleaxis", "ctor_rpy"])
        quat_ctors(rep, g, seed)
    if fam == "SE3":
        # Eigen isometry -> element: Eigen::Quaternion(Matrix3) (Shepperd branches), for the rotation matrix of EVERY unit quaternion
        HARNESS.prefetch(g, ["ctor_isometry"])
        n = 0
        for c in _paths(rep, HARNESS, g, "ctor_isometry", [("x", "G")], seed):
            if c.feasible() == "no":
                continue
            if c.path.thrown:
                c.must_not_throw()
                continue
            n += 1
            c.eq("from_isometry_same_transformation", c.spec.T(c.vec("X")), c.spec.T(c.E["x"]))
            ve = c.spec.valid_eqs(c.vec("X"))
            c.eq("from_isometry_valid", np.array(ve, dtype=object), _zero(c, len(ve)))
        if n == 0:
            rep.undecide("C13/%s/ctor_isometry/paths" % g, "FEAS", "z3", "no feasible path")


def cast_widening(rep, g, seed):
    """bounded stand-in (two real floating-point types are involved, outside the real-number model): the REAL code
    casts float elements, valid in float, to double on sampled inputs; the result must be valid in double"""
    import random
    import os
    import mpmath as mp
    from engine import build, vc
    binary = HARNESS.natives.get(g)
    if not binary:
        return
    lo, hi = ROT_SLOT[C.family(g)]
    rng = random.Random(20260927)
    sp0 = S.make_spec(g, 0, 1)
    worst, bad = 0.0, None
    n = 0
    for k in range(12):
        vals = vc.sample_group(g, rng, k)
        inp = {"x%d" % i: float(v) for i, v in enumerate(vals)}
        outs, thrown = build.run_native(binary, "cast_widen", inp, os.path.join(build.BUILD, "tmp"))
        n += 1
        if thrown:
            bad = (inp, "threw: " + thrown)
            break
        y = outs["Y"][2]
        dev = abs(sum(v * v for v in y[lo:hi]) ** 0.5 - 1.0)
        worst = max(worst, dev)
        if not dev < float(EPS):
            bad = (inp, "| ||rot|| - 1 | = %.3g >= eps(double) = %.3g" % (dev, float(EPS)))
            break
    nm = "C13/%s/cast_float_to_double_returns_a_valid_element" % g
    if bad:
        rep.fail(nm, "FP", "native run (sampled)", {"what": bad[1], "note": "cast<double>() of an element that is valid in float"},
                 {"failing_input_reproduced": True, "input": bad[0], "native_cmd": "%s cast_widen <input file>" % binary})
    else:
        rep.standin(nm, "FP", "native run (sampled)", {"samples": n, "max_norm_deviation": worst, "threshold": float(EPS)})


def validation(rep, g, seed, n):
    fam = C.family(g)
    # NDEBUG: nothing is rejected
    for path in HARNESS_NDEBUG.paths(g, "ctor_coeffs"):
        nm = "C13/%s/ctor_coeffs(NDEBUG)[%s]/never_rejects" % (g, path.script)
        if path.thrown:
            rep.fail(nm, "SAFE", "trace", {"thrown": path.thrown}, {"failing_input_reproduced": False,
                                                                    "note": "a path throws although NDEBUG is defined"})
        else:
            rep.ok(nm, "SAFE", "trace")
            c = ctx_for(rep, "C13/%s/ctor_coeffs(NDEBUG)[%s]" % (g, path.script), path, g, [("c", "M", n)], seed=seed)
            c.eq("stores_the_data", c.vec("X"), c.E["c"])
    paths = HARNESS.paths(g, "ctor_coeffs")
    if fam == "Rn":
        for path in paths:
            c = ctx_for(rep, "C13/%s/ctor_coeffs[%s]" % (g, path.script), path, g, [("c", "M", n)], seed=seed)
            if path.thrown:
                c.must_not_throw()
            else:
                c.eq("stores_the_data", c.vec("X"), c.E["c"])
        return
    lo, hi = ROT_SLOT[fam]
    n_throw = n_ok = 0
    for path in paths:
        c = ctx_for(rep, "C13/%s/ctor_coeffs[%s]" % (g, path.script), path, g, [("c", "M", n)],
                    native=HARNESS.native(g, "ctor_coeffs"), seed=seed)
        alg = c.alg
        rot = c.E["c"][lo:hi]
        nrm = alg.sqrt(sum((x * x for x in rot), alg.R.zero))
        z = smt.Z3Ctx(alg, 10000)
        dec = z.decisions(path)
        d = z.expr(nrm - 1)
        base = z.base_constraints() + dec
        eps = smt.z3.RealVal(str(EPS))
        inside = smt.z3.And(d < eps, d > -eps)
        if path.thrown:
            n_throw += 1
            nm = "C13/%s/ctor_coeffs[%s]/data_within_threshold_never_rejected" % (g, path.script)
            if "invalid_argument" not in path.thrown:
                rep.fail(nm + "/exception_type", "SAFE", "trace", {"thrown": path.thrown}, {"failing_input_reproduced": False})
            r, model, dt = z.check(base + [inside])
        else:
            n_ok += 1
            nm = "C13/%s/ctor_coeffs[%s]/non_unit_data_always_rejected" % (g, path.script)
            r, model, dt = z.check(base + [smt.z3.Not(inside)])
            c.eq("stores_the_data", c.vec("X"), c.E["c"])
        if r == "unsat":
            rep.ok(nm, "INEQ", "z3", dt, detail={"path": path.key, "thrown": path.thrown})
        elif r == "sat":
            vals = {k: v for k, v in (model or {}).items() if k.startswith("c") and v is not None}
            rp = c.make_replay({k: float(v) for k, v in vals.items()}) if len(vals) == n else {}
            rp["failing_input_reproduced"] = len(vals) == n
            rep.fail(nm, "INEQ", "z3", {"path": path.key, "thrown": path.thrown, "model": {k: str(v) for k, v in vals.items()}}, rp, dt)
        else:
            rep.undecide(nm, "INEQ", "z3", "unknown")
    if n_throw == 0 or n_ok == 0:
        rep.fail("C13/%s/ctor_coeffs/has_accepting_and_rejecting_paths" % g, "SAFE", "trace",
                 {"throwing_paths": n_throw, "accepting_paths": n_ok,
                  "note": "with assertions enabled the raw-data constructor must reject non-unit data and accept unit data"},
                 {"failing_input_reproduced": False})


def accessors(rep, c, g):
    fam = C.family(g)
    sp = c.spec
    X = c.E["x"]
    T = sp.T(X)
    c.eq("transform_is_spec_matrix", c.out("transform"), T)
    if fam == "Rn":
        return
    d = 2 if fam in ("SO2", "SE2") else 3
    R = c.out("rotation")
    c.eq("rotation_is_spec_rotation", R, T[:d, :d])
    I = np.array([[c.alg.R.one if i == j else c.alg.R.zero for j in range(d)] for i in range(d)], dtype=object)
    c.eq("rotation_orthonormal", np.dot(R.T, R), I)
    if d == 2:
        det = R[0, 0] * R[1, 1] - R[0, 1] * R[1, 0]
    else:
        det = (R[0, 0] * (R[1, 1] * R[2, 2] - R[1, 2] * R[2, 1]) - R[0, 1] * (R[1, 0] * R[2, 2] - R[1, 2] * R[2, 0])
               + R[0, 2] * (R[1, 0] * R[2, 1] - R[1, 1] * R[2, 0]))
    c.eq("rotation_det_plus_one", np.array([det], dtype=object), np.array([c.alg.R.one], dtype=object))
    lo, hi = ROT_SLOT[fam]
    named = {"SO2": {"real": 0, "imag": 1}, "SE2": {"x": 0, "y": 1, "real": 2, "imag": 3},
             "SO3": {"x": 0, "y": 1, "z": 2, "w": 3}, "SE3": {"x": 0, "y": 1, "z": 2},
             "SE_2_3": {"x": 0, "y": 1, "z": 2, "vx": 7, "vy": 8, "vz": 9},
             "SGal3": {"x": 0, "y": 1, "z": 2, "vx": 7, "vy": 8, "vz": 9, "t": 10}}[fam]
    for nm, idx in named.items():
        c.eq("accessor_%s" % nm, c.vec(nm), np.array([X[idx]], dtype=object))
    if c.has_out("quat"):
        c.eq("accessor_quat", c.vec("quat"), X[lo:hi])
    if c.has_out("translation"):
        c.eq("accessor_translation", c.vec("translation"), X[0:d])
    if c.has_out("linearVelocity"):
        c.eq("accessor_linearVelocity", c.vec("linearVelocity"), X[7:10])
    if c.has_out("isometry"):
        c.eq("isometry_is_spec_matrix", c.out("isometry"), T)
    for nm in ("rebuilt_reim", "rebuilt_quat"):
        if c.has_out(nm):
            c.eq("accessors_fed_back_reproduce_element", c.vec(nm), X)
    if c.has_out("rebuilt_angle"):
        c.eq("angle_fed_back_reproduces_element", sp.T(c.vec("rebuilt_angle")), T)


def normalize(rep, g, seed, n):
    fam = C.family(g)
    lo, hi = ROT_SLOT[fam]
    nfeas = 0
    for path in HARNESS.paths(g, "normalize"):
        c = ctx_for(rep, "C13/%s/normalize[%s]" % (g, path.script), path, g, [("c", "M", n)],
                    native=HARNESS.native(g, "normalize"), seed=seed)
        # precondition: non-degenerate data (rotation part not the zero vector)
        rot = c.E["c"][lo:hi]
        sq = sum((x * x for x in rot), c.alg.R.zero)
        c.extra_facts.append(lambda z, sq=sq: z.expr(sq) > 0)
        if c.feasible() == "no":
            continue
        if path.thrown:
            c.must_not_throw()
            continue
        nfeas += 1
        X = c.vec("X")
        c.eq("rotation_part_unit_norm", np.array([sum((x * x for x in X[lo:hi]), c.alg.R.zero)], dtype=object),
             np.array([c.alg.R.one], dtype=object))
        rest = [i for i in range(n) if not (lo <= i < hi)]
        if rest:
            c.eq("other_coefficients_unchanged", X[rest], c.E["c"][rest])
        # direction preserved: X_rot * ||c_rot|| == c_rot
        nrm = c.alg.sqrt(sq)
        c.eq("direction_preserved", X[lo:hi] * nrm, rot)
    if nfeas == 0:
        rep.undecide("C13/%s/normalize/feasible_paths" % g, "FEAS", "z3", "no feasible path")


def angle_ctor(rep, g, seed):
    fam = C.family(g)
    decl = [("a", "M", 1)] if fam == "SO2" else [("p", "M", 2), ("a", "M", 1)]
    for path in HARNESS.paths(g, "ctor_angle"):
        c = ctx_for(rep, "C13/%s/ctor_angle[%s]" % (g, path.script), path, g, decl,
                    native=HARNESS.native(g, "ctor_angle"), seed=seed)
        a = c.E["a"][0]
        c.alg.angle_in(a, "principal")
        c.extra_facts.append(lambda z: z.zv("a0") < 3.1415926)
        c.extra_facts.append(lambda z: z.zv("a0") > -3.1415926)
        c.sample_filter = lambda vals: abs(vals["a0"]) < 3.14
        if c.feasible() == "no":
            continue
        if path.thrown:
            c.must_not_throw()
            continue
        s, co = c.alg.trig(a)
        want = [co, s] if fam == "SO2" else [c.E["p"][0], c.E["p"][1], co, s]
        c.eq("coefficients_are_cos_sin", c.vec("X"), np.array(want, dtype=object))
        c.eq("angle_accessor_returns_angle", c.vec("angle"), np.array([a], dtype=object))
    n = 2 if fam == "SO2" else 4
    lo, hi = ROT_SLOT[fam]
    for path in HARNESS.paths(g, "ctor_reim"):
        c = ctx_for(rep, "C13/%s/ctor_reim[%s]" % (g, path.script), path, g, [("c", "M", n)], seed=seed)
        rot = c.E["c"][lo:hi]
        c.alg.add_relation(sum((x * x for x in rot), c.alg.R.zero) - 1)
        if c.feasible() == "no":
            continue
        if path.thrown:
            c.must_not_throw()
            continue
        c.eq("stores_the_data", c.vec("X"), c.E["c"])


def quat_ctors(rep, g, seed):
    fam = C.family(g)
    lo, hi = ROT_SLOT[fam]
    pre = {"SO3": [], "SE3": [("p", "M", 3)], "SE_2_3": [("p", "M", 3), ("v", "M", 3)],
           "SGal3": [("p", "M", 3), ("v", "M", 3), ("s", "M", 1)]}[fam]

    def expected(c, rotcoeffs):
        parts = {"SO3": [rotcoeffs], "SE3": [c.E["p"], rotcoeffs] if "p" in c.E else None}
        if fam == "SO3":
            return np.array(list(rotcoeffs), dtype=object)
        if fam == "SE3":
            return np.array(list(c.E["p"]) + list(rotcoeffs), dtype=object)
        if fam == "SE_2_3":
            return np.array(list(c.E["p"]) + list(rotcoeffs) + list(c.E["v"]), dtype=object)
        return np.array(list(c.E["p"]) + list(rotcoeffs) + list(c.E["v"]) + list(c.E["s"]), dtype=object)

    # quaternion (and SO3 sub-group element)
    for scn in ("ctor_quat",) + (("ctor_so3",) if fam != "SO3" else ()):
        HARNESS.prefetch(g, [scn])
        for path in HARNESS.paths(g, scn):
            c = ctx_for(rep, "C13/%s/%s[%s]" % (g, scn, path.script), path, g, pre + [("q", "G", "SO3")], seed=seed)
            if c.feasible() == "no":
                continue
            if path.thrown:
                c.must_not_throw()
                continue
            c.eq("stores_the_supplied_quantities", c.vec("X"), expected(c, c.E["q"]))
            if c.has_out("Y"):
                c.eq("xyzw_form_agrees", c.vec("Y"), expected(c, c.E["q"]))
    # angle-axis: Rodrigues
    for path in HARNESS.paths(g, "ctor_angleaxis"):
        c = ctx_for(rep, "C13/%s/ctor_angleaxis[%s]" % (g, path.script), path, g, pre + [("a", "M", 1), ("n", "U", 3)], seed=seed)
        if c.feasible() == "no":
            continue
        if path.thrown:
            c.must_not_throw()
            continue
        sp = c.spec
        a = c.E["a"][0]
        s, co = c.alg.trig(a)
        K = S.skew3(c.E["n"], c.alg.R.zero)
        I3 = S.eye(3, c.alg.R.zero, c.alg.R.one)
        Rod = I3 + K * s + np.dot(K, K) * (1 - co)
        X = c.vec("X")
        c.eq("rotation_is_rodrigues", _rot_of(sp, X[lo:hi]), Rod)
        c.eq("valid", np.array([sum((x * x for x in X[lo:hi]), c.alg.R.zero)], dtype=object), np.array([c.alg.R.one], dtype=object))
        keep = [i for i in range(len(X)) if not (lo <= i < hi)]
        if keep:
            c.eq("linear_parts_stored", X[keep], expected(c, X[lo:hi])[keep])
    # roll-pitch-yaw
    for path in HARNESS.paths(g, "ctor_rpy"):
        c = ctx_for(rep, "C13/%s/ctor_rpy[%s]" % (g, path.script), path, g, pre + [("e", "M", 3)], seed=seed)
        if c.feasible() == "no":
            continue
        if path.thrown:
            c.must_not_throw()
            continue
        alg = c.alg
        z0, o1 = alg.R.zero, alg.R.one
        sr, cr = alg.trig(c.E["e"][0])
        spi, cp = alg.trig(c.E["e"][1])
        sy, cy = alg.trig(c.E["e"][2])
        Rx = np.array([[o1, z0, z0], [z0, cr, -sr], [z0, sr, cr]], dtype=object)
        Ry = np.array([[cp, z0, spi], [z0, o1, z0], [-spi, z0, cp]], dtype=object)
        Rz = np.array([[cy, -sy, z0], [sy, cy, z0], [z0, z0, o1]], dtype=object)
        want = np.dot(Rz, np.dot(Ry, Rx))
        X = c.vec("X")
        c.eq("rotation_is_RzRyRx", _rot_of(c.spec, X[lo:hi]), want)
        c.eq("rotation_accessor_is_RzRyRx", c.out("rotation"), want)
        c.eq("valid", np.array([sum((x * x for x in X[lo:hi]), alg.R.zero)], dtype=object), np.array([o1], dtype=object))
