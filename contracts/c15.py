"""C15  interpolation hits its end points and SLERP follows the geodesic.

Contracts (A, B valid; ta, tb arbitrary end-point velocities):
  interpolate(A,B,0) == A, interpolate(A,B,1) == B   for SLERP, CUBIC, CNSMOOTH (as transformations)
  parameter range   every path of interpolate(A,B,t) with symbolic t either throws or satisfies 0 <= t <= 1,
                    and every throwing path has t outside [0,1] (z3 on the path conditions)
  SLERP formula     interpolate(A,B,t) is the same computation as A.rplus(B.rminus(A)*t) == A exp(t log(A^-1 B))
                    (same-execution DAG identity, all groups); left equivariance slerp(ZA,ZB,t) == Z slerp(A,B,t)
  smoothing_phi     phi(0)=0, phi(1)=1, phi'(t) = c t^m (1-t)^m with c > 0 (hence monotone on [0,1]) for degree m = 1..4;
                    every other degree raises (CBMC contract on the extracted dispatch, all size_t); interpolate_smooth rejects m = 0
End points at t=1 need exp(log W) = W for W = A^-1 B (two symbolic elements): discharged by normal form
for SO2, SE2, Rn; for the quaternion groups it follows from C03 + C01 (lemma).
"""
from fractions import Fraction

import numpy as np

from engine import smt
from . import common as C
from .common import ctx_for
from . import taylor, c03

HARNESS = C.Harness("h_interp.cpp", assertions=True, extra_defines=["VS_STUB_LARGE_INVERSE"], auto_valid=True)
TAU = c03.TAU
FULL = ["SO2", "SE2", "R3"]           # groups where t=1 end points / equivariance are discharged by normal form


def prebuild_targets(tier):
    return HARNESS.targets(C.groups_for(tier, bundles=False), native=False)


def run(rep, tier, seed):
    groups = C.groups_for(tier, bundles=False)
    errs = HARNESS.build(groups, native=False)
    rep.trust("REAL, A-TRIG/A-ATAN2/A-SQRT/A-TAYLOR; tracer hash-consing; z3 for the parameter-range reading",
              "auto-valid tracing: normalisation tests |x-1| <> eps on products of valid elements are answered 'within threshold' by the tracer "
              "and each such assumption is then PROVED from the precondition by normal form (else the run is rejected)",
              "CBMC for the degree dispatch of smoothing_phi")
    rep.assume("t=1 end points and left equivariance for the quaternion groups: consequence of C01 + C03 (lemma), discharged by normal form only for SO2, SE2, Rn")
    for fn in ("interpolate_slerp", "interpolate_cubic", "interpolate_smooth", "smoothing_phi", "interpolate"):
        C.check_anchor(rep, "manif::" + fn, "include/manif/algorithms/interpolation.h")
    from cbmc import phi_dispatch
    phi_dispatch.run(rep)
    phi_done = False
    for g in groups:
        if g in errs:
            rep.fail("C15/%s/instantiates" % g, "BUILD", "g++", {"compiler_output": errs[g].output[-3000:]},
                     {"failing_input_reproduced": False})
            continue
        if not phi_done:
            check_phi(rep, g, seed)
            phi_done = True
        check_group(rep, g, seed)


def check_phi(rep, g, seed):
    HARNESS.prefetch(g, ["phi_1", "phi_2", "phi_3", "phi_4", "phi_0", "phi_5", "smooth_m0"])
    for k in (1, 2, 3, 4):
        for path in HARNESS.paths(g, "phi_%d" % k):
            c = ctx_for(rep, "C15/smoothing_phi/degree%d[%s]" % (k, path.script), path, g, [("s", "M", 1)], seed=seed)
            if path.thrown:
                c.must_not_throw()
                continue
            alg = c.alg
            t = c.E["s"][0]
            phi = c.out("phi")[0, 0]
            c.eq("phi(0)_is_0", c.out("phi0"), np.array([[alg.R.zero]], dtype=object))
            c.eq("phi(1)_is_1", c.out("phi1"), np.array([[alg.R.one]], dtype=object))
            dphi = phi.diff(t)
            # phi' = c * t^k (1-t)^k,  c = phi'(1/2) * 4^k > 0
            half = alg.const(Fraction(1, 2))
            cval = alg.const_value(dphi.compose([(t, half)])) * 4 ** k
            c.eq("phi_prime_is_c_t^m_(1-t)^m", np.array([[dphi]], dtype=object),
                 np.array([[alg.const(cval) * t ** k * (1 - t) ** k]], dtype=object))
            if cval > 0:
                rep.ok("C15/smoothing_phi/degree%d/monotone_on_[0,1]" % k, "INEQ", "exact-rational", detail={"c": str(cval)})
            else:
                rep.fail("C15/smoothing_phi/degree%d/monotone_on_[0,1]" % k, "INEQ", "exact-rational", {"c": str(cval)},
                         {"failing_input_reproduced": False})
    for scn, what in (("phi_0", "degree 0"), ("phi_5", "degree 5"), ("smooth_m0", "interpolate_smooth with m = 0")):
        for path in HARNESS.paths(g, scn):
            nm = "C15/%s/raises" % scn
            if path.thrown:
                rep.ok(nm, "SAFE", "trace", detail={"thrown": path.thrown})
            else:
                rep.fail(nm, "SAFE", "trace", {"note": what + " must raise"}, {"failing_input_reproduced": True, "input": what})


def check_group(rep, g, seed):
    full = g in FULL
    scns = ["slerp_formula", "slerp_0", "smooth_0", "slerp_range", "smooth_range"]
    if full:
        scns += ["cubic_0", "cubic_range", "slerp_1", "cubic_1", "smooth_1", "slerp_left_equivariance"]
    HARNESS.prefetch(g, scns)
    decl = [("x", "G"), ("y", "G"), ("a", "T"), ("b", "T")]

    # ---- SLERP is A * exp(t log(A^-1 B)): same computation
    for path in HARNESS.paths(g, "slerp_formula"):
        if path.thrown:
            continue
        label = "C15/%s/slerp_formula[%s]" % (g, path.script)
        for a, b in (("out", "doc"), ("direct", "doc")):
            oa, ob = path.outs[a], path.outs[b]
            if list(oa.ids) == list(ob.ids):
                rep.ok("%s/%s_is_A_rplus_t_rminus" % (label, a), "ID", "dag")
            else:
                c = ctx_for(rep, label, path, g, [("x", "G"), ("y", "G"), ("s", "M", 1)], seed=seed)
                c.eq("%s_is_A_rplus_t_rminus" % a, c.out(a), c.out(b))

    # ---- end points
    def endpoint(scn, which, tol=True):
        n = 0
        for path in HARNESS.paths(g, scn):
            c = ctx_for(rep, "C15/%s/%s[%s]" % (g, scn, path.script), path, g, decl, seed=seed)
            if path.thrown:
                if c.feasible() != "no":
                    c.must_not_throw()
                continue
            n += 1
            want = c.E["x"] if which == "A" else c.E["y"]
            taylor.with_taylor(c, TAU, lambda c=c, want=want: c.eq("equals_%s" % which, c.spec.T(c.vec("out")), c.spec.T(want)))
        if n == 0:
            rep.undecide("C15/%s/%s/paths" % (g, scn), "FEAS", "trace", "no non-throwing path")

    endpoint("slerp_0", "A")
    if full:
        endpoint("cubic_0", "A")       # (the CUBIC blend is group independent; see the known finding)
    endpoint("smooth_0", "A")
    if full:
        endpoint("slerp_1", "B")
        endpoint("cubic_1", "B")
        endpoint("smooth_1", "B")
        for path in HARNESS.paths(g, "slerp_left_equivariance"):
            c = ctx_for(rep, "C15/%s/slerp_left_equivariance[%s]" % (g, path.script), path, g,
                        [("x", "G"), ("y", "G"), ("z", "G"), ("s", "M", 1)], seed=seed)
            if path.thrown:
                continue
            if c.feasible() == "no":
                continue
            taylor.with_taylor(c, TAU, lambda c=c: c.eq("slerp(ZA,ZB,t)_is_Z_slerp(A,B,t)", c.spec.T(c.vec("lhs")), c.spec.T(c.vec("rhs"))))
    else:
        rep.not_run.append("C15/%s: end points at t=1 and left equivariance by normal form (two symbolic quaternion elements through log/exp); "
                           "consequence of C01 + C03" % g)

    # ---- parameter range
    for scn in ("slerp_range", "cubic_range", "smooth_range"):
        if scn == "cubic_range" and not full:
            continue
        for path in HARNESS.paths(g, scn):
            c = ctx_for(rep, "C15/%s/%s[%s]" % (g, scn, path.script), path, g, [("x", "G"), ("y", "G"), ("s", "M", 1)], seed=seed)
            z = smt.Z3Ctx(c.alg, 5000)
            # only the decisions on the parameter itself are needed
            dec = []
            tname = "s0"

            def leaves(nid, memo={}):
                key = (id(path), nid)
                if key in memo:
                    return memo[key]
                out, stack, seen = set(), [nid], set()
                while stack:
                    i = stack.pop()
                    if i < 0 or i in seen:
                        continue
                    seen.add(i)
                    n = path.nodes[i]
                    if n.op in ("var", "poison", "undef"):
                        out.add(n.name or n.op)
                    stack.append(n.a)
                    stack.append(n.b)
                memo[key] = out
                return out

            for d in path.decisions:
                if leaves(d.a) | leaves(d.b) != {tname}:
                    continue          # only the comparisons on the parameter itself matter here (cheap DAG walk, no algebra)
                e = z.expr(c.alg.P(d.b) - c.alg.P(d.a))
                if d.rel == "lt":
                    dec.append(e > 0 if d.val else e <= 0)
                else:
                    dec.append(e == 0 if d.val else e != 0)
            tv = z.zv(tname)
            inside = smt.z3.And(tv >= 0, tv <= 1)
            if path.thrown:
                nm = "%s/throws_only_outside_[0,1]" % c.label
                r, model, dt = z.check(dec + [inside])
            else:
                nm = "%s/returns_only_inside_[0,1]" % c.label
                r, model, dt = z.check(dec + [smt.z3.Not(inside)])
            if r == "unsat":
                rep.ok(nm, "INEQ", "z3", dt)
            elif r == "sat":
                rep.fail(nm, "INEQ", "z3", {"path": path.key, "t": str((model or {}).get(tname)), "thrown": path.thrown},
                         {"failing_input_reproduced": False, "input": {"t": str((model or {}).get(tname))}}, dt)
            else:
                rep.undecide(nm, "INEQ", "z3", "unknown")
