"""C10  views over external memory behave exactly like owning objects.

The harness places Eigen::Map<G>, Eigen::Map<const G> (and the tangent maps) over buffers whose data
cells are the same variables as an owning object and whose neighbours are sentinel cells (3 on each
side), at cell offset 0 and 1.  Contracts (same-execution DAG identities, hence for all inputs):
  reads     every operation on views / mixed operand kinds returns the same expression as on owning objects;
            no result and no path decision depends on a sentinel cell
  writes    =, setIdentity, setRandom, +=, *=, normalize, coeffs()(i)= through a mutable view leave every
            sentinel untouched, write exactly the RepSize (DoF) viewed cells with the owning computation's
            result, and do not modify the other operand's buffer
  copies    copy / move / cross-kind construction and assignment preserve the coefficients exactly
Granularity: one scalar cell.  Not decided: discarded reads, byte-level overruns, alignment traps.
"""
from . import common as C

H0 = C.Harness("h_view.cpp", assertions=True, extra_defines=["VS_STUB_LARGE_INVERSE", "VS_OFF=0"], auto_valid=True)
H1 = C.Harness("h_view.cpp", assertions=True, extra_defines=["VS_STUB_LARGE_INVERSE", "VS_OFF=1"], auto_valid=True)

READ_G = [("compose_m", "compose_o"), ("compose_c", "compose_o"), ("compose_Ja_m", "compose_Ja_o"), ("compose_Ja_c", "compose_Ja_o"),
          ("compose_mixed1", "compose_o"), ("compose_mixed2", "compose_o"), ("compose_mixed3", "compose_o"),
          ("inverse_m", "inverse_o"), ("inverse_c", "inverse_o"), ("log_m", "log_o"), ("log_c", "log_o"),
          ("adj_m", "adj_o"), ("adj_c", "adj_o"), ("between_m", "between_o"), ("rminus_c", "rminus_o"),
          ("op_mul_c", "op_mul_o"), ("act_m", "act_o"), ("act_c", "act_o"), ("coeffs_m", "coeffs_o"), ("coeffs_c", "coeffs_o")]
READ_T = [("exp_m", "exp_o"), ("exp_c", "exp_o"), ("exp_J_m", "exp_J_o"), ("exp_J_c", "exp_J_o"), ("rjac_m", "rjac_o"),
          ("rjac_c", "rjac_o"), ("hat_m", "hat_o"), ("hat_c", "hat_o"), ("sum_m", "sum_o"), ("sum_c", "sum_o"),
          ("neg_c", "neg_o"), ("scale_c", "scale_o"), ("rplus_c", "rplus_o"), ("rplus_m", "rplus_o")]
WRITES = ["assign_owning", "assign_const_map", "assign_map", "assign_expr", "setIdentity", "plus_assign", "plus_assign_map",
          "mul_assign", "mul_assign_map", "coeff_write", "normalize"]
COPIES = [("own_from_map", "X"), ("own_from_cmap", "X"), ("assign_from_map", "X"), ("assign_from_cmap", "X"), ("move", "X"),
          ("t_own_from_map", "t"), ("t_own_from_cmap", "t"), ("t_assign_from_cmap", "t")]


def prebuild_targets(tier):
    gs = C.groups_for(tier, bundles=(tier != "quick"))
    return H0.targets(gs, native=False) + H1.targets(gs, native=False)


def same(rep, L, path, a, b, what=None):
    oa, ob = path.outs.get(a), path.outs.get(b)
    nm = "%s/%s" % (L, what or ("%s_same_as_%s" % (a, b)))
    if oa is None or ob is None:
        rep.fail(nm, "FRAME", "dag", {"missing": a if oa is None else b}, {"failing_input_reproduced": False})
        return
    if list(oa.ids) == list(ob.ids):
        rep.ok(nm, "FRAME", "dag")
    else:
        rep.fail(nm, "FRAME", "dag", {"path": path.key, "cells_that_differ": [i for i, (x, y) in enumerate(zip(oa.ids, ob.ids)) if x != y][:12]},
                 {"failing_input_reproduced": False, "scenario": path.scenario})


def reachable_guards(path, roots):
    seen, stack, hit = set(), list(roots), set()
    while stack:
        i = stack.pop()
        if i in seen or i < 0:
            continue
        seen.add(i)
        n = path.nodes[i]
        if n.op == "poison" and n.name.startswith("guard_"):
            hit.add(n.name)
        stack.append(n.a)
        stack.append(n.b)
    return hit


def no_guard_dependence(rep, L, path, skip=()):
    roots = []
    for name, o in path.outs.items():
        if name.startswith("buf") or name in skip or name == "other":
            continue
        roots += list(o.ids)
    for d in path.decisions:
        roots += [d.a, d.b]
    hit = reachable_guards(path, roots)
    nm = "%s/no_result_or_branch_depends_on_memory_outside_the_view" % L
    if hit:
        rep.fail(nm, "FRAME", "dag", {"path": path.key, "sentinels_read": sorted(hit)[:10]}, {"failing_input_reproduced": False})
    else:
        rep.ok(nm, "FRAME", "dag")


def guards_intact(rep, L, path, bufname, data_expected=None, tag=None):
    o = path.outs[bufname]
    first, n = path.ints[bufname + "_first"], path.ints[bufname + "_n"]
    bad = []
    for i, nid in enumerate(o.ids):
        if first <= i < first + n:
            continue
        node = path.nodes[nid]
        if not (node.op == "poison" and node.name.startswith("guard_") and node.name.endswith(str(i))):
            bad.append(i - first)
    nm = "%s/%s_sentinels_untouched" % (L, bufname)
    if bad:
        rep.fail(nm, "FRAME", "dag", {"path": path.key, "cells_written_relative_to_view_start": bad}, {"failing_input_reproduced": False})
    else:
        rep.ok(nm, "FRAME", "dag")
    if data_expected is not None:
        got = list(o.ids[first:first + n])
        nm = "%s/%s_viewed_cells_hold_the_result" % (L, bufname)
        if got == list(data_expected):
            rep.ok(nm, "FRAME", "dag")
        else:
            rep.fail(nm, "FRAME", "dag", {"path": path.key, "cells_that_differ": [i for i, (x, y) in enumerate(zip(got, data_expected)) if x != y]},
                     {"failing_input_reproduced": False})


def run(rep, tier, seed):
    groups = C.groups_for(tier, bundles=False)
    if tier != "quick" and not __import__("os").environ.get("VERIF_GROUPS"):
        # bundles of several 3D groups multiply the elements' branch structures beyond the path cap (same list as C09)
        groups = groups + ["Bundle:SO2,SE3,R3", "Bundle:SE2,SO3,R3", "Bundle:SO3,SO3", "Bundle:SE2,SE2,SE2,SE2",
                           "Bundle:SGal3,R3,SO2", "Bundle:SE_2_3"]
    rep.trust("hash-consing of the tracer (equal node ids <=> same expression); sentinel (poison) cells around every buffer",
              "auto-valid tracing; A-RAND for setRandom")
    rep.assume("granularity is one scalar cell: discarded reads, byte-level overruns and alignment traps are NOT decided (sanitizer questions)")
    C.check_anchor(rep, "MANIF_GROUP_MAP_ASSIGN_OP", "include/manif/impl/macro.h")
    C.check_anchor(rep, "Eigen::Map<SE3>", "include/manif/impl/se3/SE3_map.h", r"class Map<manif::SE3")
    items = []
    for off, H in ((0, H0), (1, H1)):
        errs = H.build(groups, native=False)
        for g in groups:
            if g in errs:
                lines = [l for l in errs[g].output.splitlines() if "error" in l][:6]
                rep.fail("C10/%s/off%d/instantiates" % (g, off), "BUILD", "g++", {"compiler_output": "\n".join(lines)},
                         {"failing_input_reproduced": False})
                continue
            items.append((H, g, off))

    def one(r, it):
        H, g, off = it
        try:
            check(r, H, g, off)
        except RuntimeError as e:
            if "too many paths" not in str(e):
                raise
            r.not_run.append("C10/%s/off%d: %s" % (g, off, str(e)[-120:]))
    rep.parallel(items, one)


def check(rep, H, g, off):
    fam = C.family(g)
    writes = [w for w in WRITES if not (w == "normalize" and fam in ("Rn", "Bundle"))]
    scns = ["read_group", "read_tangent", "copies", "view_sees_writes", "write_setRandom", "write_tangent", "write_tangent_zero"] + ["write_" + w for w in writes]
    avail = set(__import__("engine.build", fromlist=["x"]).list_scenarios(H.bins[g]))
    scns = [s for s in scns if s in avail]
    H.prefetch(g, scns)
    for scn, pairs, bufs in (("read_group", READ_G, ["bufx", "bufy"]), ("read_tangent", READ_T, ["buft", "bufu"])):
        for path in H.paths(g, scn):
            if path.thrown:
                continue
            L = "C10/%s/off%d/%s[%s]" % (g, off, scn, path.script)
            for a, b in pairs:
                same(rep, L, path, a, b)
            no_guard_dependence(rep, L, path)
            for b in bufs:
                guards_intact(rep, L, path, b)
    for w in writes:
        if "write_" + w not in scns:
            continue
        for path in H.paths(g, "write_" + w):
            if path.thrown:
                continue
            L = "C10/%s/off%d/write_%s[%s]" % (g, off, w, path.script)
            guards_intact(rep, L, path, "buf", data_expected=path.outs["expect"].ids)
            # the other operand's buffer is not modified at all
            o = path.outs["other"]
            first, n = path.ints["other_first"], path.ints["other_n"]
            ok = all(path.nodes[i].op in ("var", "poison") for i in o.ids)
            (rep.ok if ok else lambda *a, **k: rep.fail(a[0], a[1], a[2], {"path": path.key}, {"failing_input_reproduced": False}))(
                "%s/other_operand_buffer_unchanged" % L, "FRAME", "dag")
            no_guard_dependence(rep, L, path)
    for scn in ("write_setRandom", "write_tangent", "write_tangent_zero"):
        if scn not in scns:
            continue
        for path in H.paths(g, scn):
            if path.thrown:
                continue
            L = "C10/%s/off%d/%s[%s]" % (g, off, scn, path.script)
            exp = path.outs["expect"].ids if "expect" in path.outs else None
            guards_intact(rep, L, path, "buf", data_expected=exp)
            if scn == "write_setRandom":
                o = path.outs["buf"]
                first, n = path.ints["buf_first"], path.ints["buf_n"]
                written = all(path.nodes[i].op != "poison" and not (path.nodes[i].op == "var" and path.nodes[i].name.startswith("x")) for i in o.ids[first:first + n])
                nm = "%s/every_viewed_cell_written" % L
                rep.ok(nm, "FRAME", "dag") if written else rep.fail(nm, "FRAME", "dag", {"path": path.key}, {"failing_input_reproduced": False})
            no_guard_dependence(rep, L, path)
    for path in H.paths(g, "view_sees_writes"):
        if path.thrown:
            continue
        L = "C10/%s/off%d/view_sees_writes[%s]" % (g, off, path.script)
        for k in ("const_view_data_is_buffer", "mutable_view_data_is_buffer", "const_tangent_view_data_is_buffer"):
            nm = "%s/%s" % (L, k)
            if path.ints.get(k) == 1:
                rep.ok(nm, "FRAME", "trace")
            else:
                rep.fail(nm, "FRAME", "trace", {"note": "the view does not alias the user buffer (it holds a private copy)"},
                         {"failing_input_reproduced": True, "input": "construct the view, compare view.coeffs().data() with the buffer pointer"})
        same(rep, L, path, "const_view_after_write", "expected", "const_view_sees_a_later_write")
        same(rep, L, path, "inverse_through_const_view", "inverse_expected", "operation_through_const_view_uses_current_buffer")
        same(rep, L, path, "const_tangent_view_after_write", "t_expected", "const_tangent_view_sees_a_later_write")
    for path in H.paths(g, "copies"):
        if path.thrown:
            continue
        L = "C10/%s/off%d/copies[%s]" % (g, off, path.script)
        for a, b in COPIES:
            same(rep, L, path, a, b, "%s_preserves_coefficients" % a)
