"""C03  log is the principal inverse of exp on every valid element.

Contracts (X valid, t a tangent with rotation angle < pi):
  exp_log   T(exp(log X)) == T(X)                    for EVERY valid X (both hemispheres; direct, no parametrisation)
  log_exp   log(exp t) == t                          for |angle(t)| < pi           (A-TRIG quadrant facts, A-ATAN2 inverse on (-pi,pi))
  antipodal log(-q) == log(q): the logarithm of the antipodal coefficient vector of exp(t) is t as well
  angle     the rotation angle of log X is at most pi: every atan2 feeding the result has a non-negative
            x-argument on its path (quaternion groups) / is the principal value by A-ATAN2 (complex-number groups)
  safe      no vanishing denominator / negative sqrt argument on any feasible path (finite result)
Small-angle paths: bounded by TAU*scale (TAYLOR).  Elements reachable only through composition
chains are covered because the only precondition is valid(X) (C08 keeps every reachable element valid).
"""
from fractions import Fraction

import numpy as np

from engine import smt
from . import common as C
from .common import ctx_for
from . import taylor
from engine import fpcheck

HARNESS = C.Harness("h_core.cpp", assertions=True, extra_defines=["VS_STUB_LARGE_INVERSE", "VS_NO_SMALLADJ"])

EPS = Fraction(25, 1125899906842624)
TAU = float(64 * EPS)

ANG = {"SO2": [0], "SE2": [2], "SO3": [0, 1, 2], "SE3": [3, 4, 5], "SE_2_3": [3, 4, 5], "SGal3": [6, 7, 8]}
QUAT = ("SO3", "SE3", "SE_2_3", "SGal3")


def prebuild_targets(tier):
    return HARNESS.targets(C.groups_for(tier, bundles=False))


def run(rep, tier, seed):
    groups = C.groups_for(tier, bundles=False)
    errs = HARNESS.build(groups)
    rep.trust("REAL: machine arithmetic treated as mathematical",
              "L-POLAR: every unit quaternion is +-(sin(a) n, cos(a)), every unit complex number (cos a, sin a) (used only to read "
              "'log_exp' and 'antipodal' as statements about every valid element)",
              "A-TRIG quadrant facts (0<=a<pi/2 => sin a>=0, cos a>0), A-ATAN2 (sin/cos of atan2, atan2(sin a, cos a)=a on (-pi,pi), "
              "|atan2(y,x)|<=pi/2 for x>=0), A-SQRT, A-TAYLOR",
              "tracer vsym/sym.h; engine/alg.py; z3")
    rep.assume("NOT decided: floating-point behaviour within ~1e-6 of the angle pi; the measure-zero set angle == pi is excluded",
               "Bundles: log/exp act element-wise (proved under C11), not repeated here")
    items = []
    for g in groups:
        if g in errs:
            rep.fail("C03/%s/instantiates" % g, "BUILD", "g++", {"compiler_output": errs[g].output[-3000:]},
                     {"failing_input_reproduced": False})
            continue
        items.append(g)
    rep.parallel(items, lambda r, g: check_group(r, g, tier, seed))


def _angle_facts(c, g):
    """precondition |angle(t)| < pi as facts for the engine and for z3"""
    alg = c.alg
    t = c.E["t"]
    if g in ("SO2", "SE2"):
        th = t[ANG[g][0]]
        alg.angle_in(th, "principal")
        nm = c.inputs[0].names()[ANG[g][0]]
        c.extra_facts.append(lambda z, nm=nm: z.zv(nm) < 3.1415926)
        c.extra_facts.append(lambda z, nm=nm: z.zv(nm) > -3.1415926)
        c.sample_filter = lambda vals, nm=nm: abs(vals[nm]) < 3.14
    elif g in QUAT:
        th2 = sum((t[i] ** 2 for i in ANG[g]), alg.R.zero)
        Rg = alg.sqrt(th2)
        alg.angle_in(Rg * alg.const(Fraction(1, 2)), "first_quadrant")
        rname = [n for n, (a, r) in alg.gen_atom.items() if a.kind == "sqrt" and alg.gen[n] == Rg][0]
        c.extra_facts.append(lambda z, rname=rname: z.zv(rname) < 3.1415926)
        names = [c.inputs[0].names()[i] for i in ANG[g]]
        c.sample_filter = lambda vals, names=names: sum(vals[n] ** 2 for n in names) < 9.8


def _away_from_pi(g):
    """the floating-point clause is not claimed within ~1e-6 of the rotation angle pi (documented exclusion)"""
    fam = C.family(g)
    if fam in QUAT:
        lo = {"SO3": 0, "SE3": 3, "SE_2_3": 3, "SGal3": 3}[fam]
        return lambda vals, k="x%d" % (lo + 3): abs(vals[k]) > 1e-5
    if fam in ("SO2", "SE2"):
        re_, im_ = ("x0", "x1") if fam == "SO2" else ("x2", "x3")
        return lambda vals: not (vals[re_] < 0 and abs(vals[im_]) < 1e-5)
    return None


def check_group(rep, g, tier, seed):
    fam = C.family(g)
    bf = C.base_file(g)
    C.check_anchor(rep, "%sBase::log" % fam, bf)
    C.check_anchor(rep, "%sTangentBase::exp" % fam, C.tangent_base_file(g))
    scns = ["explog", "logexp", "logexp_neg", "log__"]
    HARNESS.prefetch(g, scns)

    # ---- exp(log X) == X as a transformation, for every valid X
    n = 0
    for path in HARNESS.paths(g, "explog"):
        c = ctx_for(rep, "C03/%s/explog[%s]" % (g, path.script), path, g, [("x", "G")],
                    native=HARNESS.native(g, "explog"), seed=seed)
        if c.feasible() == "no":
            continue
        if path.thrown:
            c.must_not_throw()
            continue
        n += 1
        rep.progress("%s explog[%s]" % (g, path.script))
        sp = c.spec
        taylor.with_taylor(c, TAU, lambda c=c, sp=sp: c.eq("exp_log_is_identity", sp.T(c.vec("Y")), sp.T(c.E["x"])))
        fpcheck.compare(rep, c, ["t", "Y"], 1e-9, "log_and_exp_log_values", n=5, sample_ok=_away_from_pi(g))
    if n == 0:
        rep.undecide("C03/%s/explog/feasible_paths" % g, "FEAS", "z3", "no feasible path (vacuity guard)")

    # ---- log(exp t) == t inside the injectivity radius; same for the antipodal coefficient vector
    for scn in ("logexp", "logexp_neg"):
        if fam == "Rn" and scn == "logexp_neg":
            continue
        if fam == "SGal3" and tier == "quick":
            if scn == "logexp":
                rep.not_run.append("C03/SGal3 log(exp t) == t and the antipodal clause: ~20 paths of ~80 s each, run in the thorough tier only "
                                   "(exp_log, angle and safe clauses for SGal3 are in the quick tier)")
            continue
        n = 0
        for path in HARNESS.paths(g, scn):
            if scn == "logexp_neg" and path.ints.get("has_double_cover") == 0:
                continue
            c = ctx_for(rep, "C03/%s/%s[%s]" % (g, scn, path.script), path, g, [("t", "T")],
                        native=HARNESS.native(g, scn), seed=seed)
            if g in ANG:
                _angle_facts(c, g)
            if c.feasible() == "no":
                continue
            if path.thrown:
                c.must_not_throw()
                continue
            n += 1
            rep.progress("%s %s[%s]" % (g, scn, path.script))
            name = "log_exp_is_identity" if scn == "logexp" else "log_of_antipodal_coefficients"
            taylor.with_taylor(c, TAU, lambda c=c, name=name: c.eq(name, c.vec("out"), c.E["t"]))
        if n == 0 and not (scn == "logexp_neg" and fam not in QUAT):
            rep.undecide("C03/%s/%s/feasible_paths" % (g, scn), "FEAS", "z3", "no feasible path (vacuity guard)")

    # ---- finiteness and principal angle of log on every feasible path
    for path in HARNESS.paths(g, "log__"):
        c = ctx_for(rep, "C03/%s/log[%s]" % (g, path.script), path, g, [("x", "G")],
                    native=HARNESS.native(g, "log__"), seed=seed)
        if c.feasible() == "no":
            continue
        if path.thrown:
            c.must_not_throw()
            continue
        if fam in QUAT:
            # precondition of the finiteness clause: rotation angle != pi (w != 0), the excluded measure-zero set
            lo = {"SO3": 0, "SE3": 3, "SE_2_3": 3, "SGal3": 3}[fam]
            wname = c.inputs[0].names()[lo + 3]
            c.extra_facts.append(lambda z, wname=wname: z.zv(wname) != 0)
        c.vec("out")
        c.check_safe()
        if fam in QUAT:
            # |2 atan2(y, x)| <= pi  <=  x >= 0 on this path
            for name, (atom, role) in list(c.alg.gen_atom.items()):
                if atom.kind != "atan2":
                    continue
                y, x = atom.args
                z = smt.Z3Ctx(c.alg, 8000)
                dec = z.decisions(c.path)
                cs = z.base_constraints(c.extra_facts_z3(z)) + dec + [z.expr(x) < 0]
                r, model, dt = z.check(cs)
                oname = "%s/angle_at_most_pi/%s" % (c.label, name)
                if r == "unsat":
                    rep.ok(oname, "INEQ", "z3", dt, detail={"atan2_x_argument_nonnegative": str(x)})
                elif r == "sat":
                    vals = c.project_model(model)
                    rp = c.make_replay(vals) if vals else {}
                    rp["failing_input_reproduced"] = bool(vals)
                    rep.fail(oname, "INEQ", "z3", {"path": c.path.key, "atan2_x_argument_can_be_negative": str(x)}, rp, dt)
                else:
                    rep.standin(oname, "INEQ", "z3-unknown", {"path": c.path.key})
