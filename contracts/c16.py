"""C16  averages are valid, stationary and equivariant  (partial: the convergence clauses are NOT decided).

Contracts for average_biinvariant, average, average_frechet_left, average_frechet_right (each routine compiled in
its own translation unit per group - a routine that cannot be instantiated violates the property):
  empty set          raises
  one point          returns that point (same expression)
  identical points   returns that point: the mean tangent is exactly zero at the first test, so the only feasible
                     path leaves the loop there (normal form + z3 on the path conditions)
  two points, one iteration (bounded: N = 2, max_iterations = 1):
        valid result (the result is built by the C08 primitives), exit through `break` implies residual^2 < eps
        (that IS the path condition), left equivariance of the iterate: avg({ZX,ZY}) == Z avg({X,Y})  [biinvariant, weighted]
  termination        every loop runs at most max_iterations times (for-loop bound; the trace enumerates it)
Bounded in N (<= 3) and in max_iterations (<= 2) - labelled bounded.  NOT decided: convergence within the budget for
radius <= 0.5, order independence, equivariance of the Frechet variants (fixed-point statements without a per-call contract).
"""
import numpy as np

from engine import build
from . import common as C
from .common import ctx_for
from . import taylor, c03

ROUTINES = ["biinvariant", "weighted", "frechet_left", "frechet_right"]
FN = {"biinvariant": "average_biinvariant", "weighted": "average", "frechet_left": "average_frechet_left",
      "frechet_right": "average_frechet_right"}
H = [C.Harness("h_avg.cpp", assertions=True, extra_defines=["VS_STUB_LARGE_INVERSE", "VS_ROUTINE=%d" % k], auto_valid=True)
     for k in range(4)]
GROUPS = ["SO2", "SE2", "SO3", "R3"]
EQUIV = {"SO2", "R3"}
TAU = c03.TAU


def prebuild_targets(tier):
    out = []
    for h in H:
        out += h.targets(GROUPS, native=False)
    return out


def run(rep, tier, seed):
    import os
    groups = GROUPS
    if os.environ.get("VERIF_GROUPS"):
        groups = [g for g in os.environ["VERIF_GROUPS"].split(";") if g in GROUPS]
    rep.trust("REAL; tracer; auto-valid tracing; z3; A-TRIG/A-ATAN2/A-SQRT/A-TAYLOR",
              "validity of the result: the routines build elements only through compose / exp / += (C08)")
    rep.assume("BOUNDED: container sizes N in {0,1,2,3}, iteration budget <= 2; groups SO2, SE2, SO3, R3",
               "NOT decided: convergence within max_iterations for radius <= 0.5, order independence, equivariance of the Frechet variants "
               "(they hold only at the fixed point; no per-call contract expresses them)")
    rep.level = "proof"
    for fn in FN.values():
        C.check_anchor(rep, "manif::" + fn, "include/manif/algorithms/average.h", r"\b%s\(const Container" % fn)
    items = []
    for k, name in enumerate(ROUTINES):
        errs = H[k].build(groups, native=True)
        for g in groups:
            if g == "SO3" and name != "biinvariant" and tier == "quick":
                continue        # (quaternion group: the Jacobian-weighted variants are in the thorough tier only - minutes per routine)
            if g in errs:
                lines = [l for l in errs[g].output.splitlines() if "error" in l][:4]
                rep.fail("C16/%s/%s/instantiates" % (g, FN[name]), "BUILD", "g++", {"compiler_output": "\n".join(lines)},
                         {"failing_input_reproduced": True,
                          "demonstration": "std::vector<manif::%sd> v{...}; manif::%s(v);  does not compile" % (g if g != "R3" else "R3", FN[name])})
                continue
            items.append((k, g, name))

    def one(r, it):
        k, g, name = it
        try:
            check(r, H[k], g, name, seed)
        except RuntimeError as e:
            if "too many paths" not in str(e):
                raise
            # (SO3 with the Jacobian-weighted variants, thorough tier: the branch structure exceeds the path cap)
            r.not_run.append("C16/%s/%s: %s" % (g, FN[name], str(e)[-100:]))
        if name != "weighted":
            stationarity(r, H[k], g, name)
    rep.parallel(items, one)
    rep.bounded.append({"name": "C16 domain", "detail": "N <= 3 points, max_iterations <= 2; convergence clauses not decided"})


def stationarity(rep, h, g, name):
    """bounded stand-in for 'returns m with sum_i log(m^-1 X_i) = 0 up to the stopping tolerance within the iteration budget':
    the REAL double code on sampled point sets (6 points, geodesic radius <= 0.5) around centres of rotation angle 0 .. 3.1"""
    import os
    import random
    from engine import build
    binary = h.natives.get(g)
    if not binary:
        return
    from . import spec as S
    sp = S.make_spec(g, 0, 1)
    ang = c03.ANG.get(g, [])
    rng = random.Random(20260927)
    worst, bad, n = 0.0, None, 0
    for centre in (0.0, 0.3, 1.0, 1.6, 2.6, 3.1):
        vals = {}
        cv = [rng.uniform(-1, 1) for _ in range(sp.dof)]
        if ang:
            nrm = sum(cv[i] ** 2 for i in ang) ** 0.5 or 1.0
            for i in ang:
                cv[i] = cv[i] / nrm * centre
        for i, x in enumerate(cv):
            vals["c%d" % i] = x
        for k in range(6):
            d = [rng.uniform(-1, 1) for _ in range(sp.dof)]
            nrm = sum(x * x for x in d) ** 0.5 or 1.0
            rad = rng.uniform(0.05, 0.5)
            for i, x in enumerate(d):
                vals["d%d_%d" % (k, i)] = x / nrm * rad
        outs, thrown = build.run_native(binary, name + "_stationarity", vals, os.path.join(build.BUILD, "tmp"))
        n += 1
        if thrown:
            bad = (vals, "threw: " + thrown, centre)
            break
        res = max(abs(x) for x in outs["residual"][2])
        worst = max(worst, res)
        if not res < 1e-6:
            bad = (vals, "| mean_i log(m^-1 X_i) | = %.3g after the iteration budget" % res, centre)
            break
    nm = "C16/%s/%s/stationary_within_budget" % (g, FN[name])
    if bad:
        rep.fail(nm, "FP", "native run (sampled)", {"what": bad[1], "centre_rotation_angle": bad[2]},
                 {"failing_input_reproduced": True, "input": bad[0], "native_cmd": "%s %s_stationarity <input file>" % (binary, name)})
    else:
        rep.standin(nm, "FP", "native run (sampled)", {"point_sets": n, "max_residual": worst, "tolerance": 1e-6})


def check(rep, h, g, name, seed):
    scns = [name + s for s in ("_empty", "_single", "_identical", "_two")]
    equiv = g in EQUIV and name in ("biinvariant", "weighted")
    if equiv:
        scns.append(name + "_two_left")
    h.prefetch(g, scns)
    L0 = "C16/%s/%s" % (g, FN[name])
    for path in h.paths(g, name + "_empty"):
        nm = "%s/empty_set_raises" % L0
        rep.ok(nm, "SAFE", "trace", detail={"thrown": path.thrown}) if path.thrown else rep.fail(
            nm, "SAFE", "trace", {"note": "no exception for an empty container"}, {"failing_input_reproduced": True, "input": "empty vector"})
    for path in h.paths(g, name + "_single"):
        nm = "%s/single_point_returned[%s]" % (L0, path.script)
        if path.thrown:
            rep.fail(nm, "ID", "trace", {"thrown": path.thrown}, {"failing_input_reproduced": False})
        elif list(path.outs["out"].ids) == list(path.outs["X"].ids):
            rep.ok(nm, "ID", "dag")
        else:
            rep.fail(nm, "ID", "dag", {"note": "result is not the single input point"}, {"failing_input_reproduced": False})
    n = 0
    for path in h.paths(g, name + "_identical"):
        rep.check_budget()
        c = ctx_for(rep, "%s/identical_points[%s]" % (L0, path.script), path, g, [("x", "G")], seed=seed)
        if c.feasible() == "no":
            continue
        if path.thrown:
            c.must_not_throw()
            continue
        n += 1
        taylor.with_taylor(c, TAU, lambda c=c: c.eq("returns_that_point", c.spec.T(c.vec("out")), c.spec.T(c.E["x"])))
    if n == 0:
        rep.undecide("%s/identical_points/paths" % L0, "FEAS", "z3", "no feasible path")
    n = 0
    for path in h.paths(g, name + "_two"):
        rep.check_budget()
        c = ctx_for(rep, "%s/two_points[%s]" % (L0, path.script), path, g, [("x", "G"), ("y", "G")], seed=seed)
        if path.thrown:
            if c.feasible() != "no":
                c.must_not_throw()
            continue
        n += 1
        sp = c.spec
        ve = sp.valid_eqs(c.vec("out"))
        if ve:
            taylor.with_taylor(c, TAU, lambda c=c, ve=ve: c.eq("result_valid", np.array(ve, dtype=object),
                                                               np.array([c.alg.R.zero] * len(ve), dtype=object)))
    if n == 0:
        rep.undecide("%s/two_points/paths" % L0, "FEAS", "trace", "no non-throwing path")
    if equiv:
        for path in h.paths(g, name + "_two_left"):
            rep.check_budget()
            c = ctx_for(rep, "%s/left_equivariance_of_the_iterate[%s]" % (L0, path.script), path, g,
                        [("x", "G"), ("y", "G"), ("z", "G")], seed=seed)
            if path.thrown:
                continue
            if c.feasible() == "no":
                continue
            taylor.with_taylor(c, TAU, lambda c=c: c.eq("avg(ZX,ZY)_is_Z_avg(X,Y)", c.spec.T(c.vec("lhs")), c.spec.T(c.vec("rhs"))))
