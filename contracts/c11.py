"""C11  a Bundle is the direct product of its element groups.

Every scenario evaluates the operation on the Bundle and, in the same execution, on every
element (copied out of element<i>() into an owning object).  Contract, for every layout:
   value      Bundle result == concatenation of the elements' results at offsets that the SPEC
              computes as prefix sums of the elements' RepSize / DoF / Dim / algebra size
   jacobians  block-diagonal: diagonal blocks == the elements' Jacobians, every other cell is the
              literal constant 0 (not a zero-valued expression, not an unwritten cell)
   views      element<i>() aliases exactly coefficients [off_i, off_i + size_i) (pointer offsets)
   transform  block-diagonal matrix of the elements' transform() (own translation unit:
              if it cannot be instantiated, that is a violation of this property)
Layouts are enumerated (configurations), not proved for all: compute_indices is a constexpr
metaprogram with no run-time contract.
"""
import numpy as np

from . import common as C
from .common import ctx_for
from . import spec as S

HARNESS = C.Harness("h_bundle.cpp", assertions=True, extra_defines=["VS_STUB_LARGE_INVERSE"], auto_valid=True)
TRANSFORM = C.Harness("h_bundle.cpp", assertions=True, extra_defines=["VS_STUB_LARGE_INVERSE", "VS_BUNDLE_TRANSFORM"], auto_valid=True)


def layouts(tier):
    import os
    if os.environ.get("VERIF_GROUPS"):
        return [g for g in os.environ["VERIF_GROUPS"].split(";") if g.startswith("Bundle")]
    return ["Bundle:SE2,SO3,R3", "Bundle:SO2,SE3"] if tier == "quick" else C.BUNDLES_ALL + ["Bundle:SE2,SO3,R3", "Bundle:SO2,SE3"]


def prebuild_targets(tier):
    return HARNESS.targets(layouts(tier), native=False) + TRANSFORM.targets(layouts(tier)[:2] + ["Bundle:SE_2_3,SO3,SE2", "Bundle:SGal3,R3,SO2"], native=False)


def run(rep, tier, seed):
    ls = layouts(tier)
    errs = HARNESS.build(ls, native=False)
    terrs = TRANSFORM.build(ls[:2] if tier == "quick" else ls, native=False)
    rep.trust("auto-valid tracing (normalisation tests answered 'within threshold', each assumption proved by normal form)",
              "REAL: machine arithmetic treated as mathematical",
              "A-EIGEN-INV for element groups whose rjacinv/ljacinv fall back to a numeric inverse; A-RAND",
              "tracer vsym/sym.h; engine/alg.py")
    rep.assume("bundle layouts are enumerated: %s" % ", ".join(ls))
    C.check_anchor(rep, "BundleBase::compose", "include/manif/impl/bundle/Bundle_base.h")
    C.check_anchor(rep, "BundleBase::transform_impl", "include/manif/impl/bundle/Bundle_base.h")
    C.check_anchor(rep, "BundleTangentBase::exp", "include/manif/impl/bundle/BundleTangent_base.h")
    C.check_anchor(rep, "compute_indices", "include/manif/impl/traits.h")
    def one_layout(rep, g):
        if g in errs:
            rep.fail("C11/%s/instantiates" % g, "BUILD", "g++", {"compiler_output": errs[g].output[-3000:]},
                     {"failing_input_reproduced": False})
            return
        try:
            check_layout(rep, g, seed)
        except RuntimeError as e:
            if "too many paths" not in str(e):
                raise
            # product of the elements' branch structures exceeds the path cap: this layout's remaining scenarios are not run
            rep.not_run.append("C11/%s: %s" % (g, str(e)[-120:]))
    rep.parallel(ls, one_layout)
    tls = (ls[:2] + ["Bundle:SE_2_3,SO3,SE2", "Bundle:SGal3,R3,SO2"]) if tier == "quick" else ls
    terrs.update(TRANSFORM.build([g for g in tls if g not in ls[:2]], native=False) if tier == "quick" else {})
    def one_transform(rep, g):
        if g in terrs:
            lines = [l for l in terrs[g].output.splitlines() if "error" in l][:5]
            rep.fail("C11/%s/transform/instantiates" % g, "BUILD", "g++",
                     {"compiler_output": "\n".join(lines), "note": "Bundle::transform() cannot be instantiated"},
                     {"failing_input_reproduced": True,
                      "demonstration": "any program calling transform() on a %s fails to compile" % S.cpp_type(g).replace("vs::Sym", "double")})
            return
        check_transform(rep, g, seed)
    rep.parallel(tls, one_transform)


def _blocks(c, sp, name, row_attr, col_attr, label):
    """Bundle matrix `name` is block-diagonal with the elements' matrices e<i>_<name>"""
    alg = c.alg
    M = c.out(name)
    o = c.path.outs[name]
    ro, co = sp.offsets(row_attr), sp.offsets(col_attr)
    covered = np.zeros(M.shape, dtype=bool)
    for i, e in enumerate(sp.elems):
        r, k = getattr(e, row_attr), getattr(e, col_attr)
        c.eq("%s/block%d" % (label, i), M[ro[i]:ro[i] + r, co[i]:co[i] + k], c.out("e%d_%s" % (i, name)))
        covered[ro[i]:ro[i] + r, co[i]:co[i] + k] = True
    bad = []
    for idx in np.ndindex(M.shape):
        if covered[idx]:
            continue
        node = c.path.nodes[o.at(idx[0], idx[1])]
        if not (node.op == "const" and node.const == 0):
            bad.append([int(idx[0]), int(idx[1]), node.op])
    nm = "%s/%s/off_diagonal_literal_zero" % (c.label, label)
    if bad:
        samples = c.samples(want=1)
        rp = c.make_replay(samples[0]) if samples else {}
        rp["failing_input_reproduced"] = bool(samples)
        c.rep.fail(nm, "FRAME", "dag", {"path": c.path.key, "cells_not_literal_zero": bad[:20]}, rp)
    else:
        c.rep.ok(nm, "FRAME", "dag")


def _concat(c, sp, name, attr, label):
    v = c.vec(name)
    offs = sp.offsets(attr)
    for i, e in enumerate(sp.elems):
        n = getattr(e, attr)
        c.eq("%s/element%d" % (label, i), v[offs[i]:offs[i] + n], c.vec("e%d_%s" % (i, name)))
    tot = sum(getattr(e, attr) for e in sp.elems)
    if len(v) != tot:
        c.rep.fail("%s/%s/size" % (c.label, label), "ID", "dag", {"size": len(v), "spec": tot}, {"failing_input_reproduced": False})


def _ctxs(rep, g, scn, decl, seed):
    out = []
    for path in HARNESS.paths(g, scn):
        c = ctx_for(rep, "C11/%s/%s[%s]" % (g, scn, path.script), path, g, decl, seed=seed)
        if c.feasible() == "no":
            continue
        if path.thrown:
            c.must_not_throw()
            continue
        out.append(c)
    if not out:
        rep.undecide("C11/%s/%s/feasible_paths" % (g, scn), "FEAS", "z3", "no feasible path (vacuity guard)")
    return out


def check_layout(rep, g, seed):
    HARNESS.prefetch(g, ["offsets", "compose", "compose_subsets", "inverse", "log", "exp", "tan", "act"])
    # ---- offsets and views
    for c in _ctxs(rep, g, "offsets", [("x", "G"), ("t", "T")], seed):
        sp = c.spec
        k = c.path.ints
        want = {"N": len(sp.elems), "rep": sp.rep, "dof": sp.dof, "dim": sp.dim}
        ro, do = sp.offsets("rep"), sp.offsets("dof")
        for i, e in enumerate(sp.elems):
            want.update({"e%d_rep_off" % i: ro[i], "e%d_dof_off" % i: do[i], "e%d_rep" % i: e.rep,
                         "e%d_dof" % i: e.dof, "e%d_dim" % i: e.dim})
        bad = {n: (k.get(n), v) for n, v in want.items() if k.get(n) != v}
        if bad:
            rep.fail("C11/%s/offsets/table" % g, "FRAME", "trace", {"got_vs_spec": bad}, {"failing_input_reproduced": True,
                                                                                         "input": "layout " + g})
        else:
            rep.ok("C11/%s/offsets/table" % g, "FRAME", "trace", detail=want)
        for i, e in enumerate(sp.elems):
            c.eq("element%d_view_aliases_coefficients" % i, c.vec("e%d_view" % i), c.E["x"][ro[i]:ro[i] + e.rep])
            c.eq("element%d_tangent_view_aliases_coefficients" % i, c.vec("e%d_tview" % i), c.E["t"][do[i]:do[i] + e.dof])
    for c in _ctxs(rep, g, "compose", [("x", "G"), ("y", "G")], seed):
        sp = c.spec
        _concat(c, sp, "out", "rep", "compose")
        _blocks(c, sp, "Ja", "dof", "dof", "compose_Ja")
        _blocks(c, sp, "Jb", "dof", "dof", "compose_Jb")
    for c in _ctxs(rep, g, "compose_subsets", [("x", "G"), ("y", "G")], seed):
        sp = c.spec
        _concat(c, sp, "out", "rep", "compose_only_Ja")
        _blocks(c, sp, "Ja", "dof", "dof", "compose_only_Ja_requested")
        _blocks(c, sp, "Jb", "dof", "dof", "compose_only_Jb_requested")
    for c in _ctxs(rep, g, "inverse", [("x", "G")], seed):
        sp = c.spec
        _concat(c, sp, "out", "rep", "inverse")
        _blocks(c, sp, "J", "dof", "dof", "inverse_J")
        _blocks(c, sp, "adj", "dof", "dof", "adj")
    for c in _ctxs(rep, g, "log", [("x", "G")], seed):
        sp = c.spec
        _concat(c, sp, "out", "dof", "log")
        _blocks(c, sp, "J", "dof", "dof", "log_J")
    for c in _ctxs(rep, g, "exp", [("t", "T")], seed):
        sp = c.spec
        _concat(c, sp, "out", "rep", "exp")
        _blocks(c, sp, "J", "dof", "dof", "exp_J")
    for c in _ctxs(rep, g, "tan", [("t", "T")], seed):
        sp = c.spec
        _blocks(c, sp, "hat", "asize", "asize", "hat")
        for nm in ("rjac", "ljac", "rjacinv", "ljacinv"):
            _blocks(c, sp, nm, "dof", "dof", nm)
        c.eq("vee_inverts_hat", c.vec("vee_hat"), c.E["t"])
    for c in _ctxs(rep, g, "act", [("x", "G"), ("p", "P")], seed):
        sp = c.spec
        _concat(c, sp, "out", "dim", "act")
        _blocks(c, sp, "Jm", "dim", "dof", "act_Jm")
        _blocks(c, sp, "Jp", "dim", "dim", "act_Jp")


def check_transform(rep, g, seed):
    TRANSFORM.prefetch(g, ["transform", "offsets"])
    # the offset tables of this layout (cheap; layouts with 5x5 elements in a non-last position are in the quick tier for this reason)
    for path in TRANSFORM.paths(g, "offsets"):
        if path.thrown:
            continue
        c = ctx_for(rep, "C11/%s/offsets(transform harness)[%s]" % (g, path.script), path, g, [("x", "G"), ("t", "T")], seed=seed)
        sp = c.spec
        k = path.ints
        ro, do = sp.offsets("rep"), sp.offsets("dof")
        bad = {}
        for i, e in enumerate(sp.elems):
            for nm, v in (("e%d_rep_off" % i, ro[i]), ("e%d_dof_off" % i, do[i])):
                if k.get(nm) != v:
                    bad[nm] = (k.get(nm), v)
        nm = "C11/%s/offsets(transform harness)/table" % g
        rep.ok(nm, "FRAME", "trace") if not bad else rep.fail(nm, "FRAME", "trace", {"got_vs_spec": bad}, {"failing_input_reproduced": True, "input": g})
    for path in TRANSFORM.paths(g, "transform"):
        c = ctx_for(rep, "C11/%s/transform[%s]" % (g, path.script), path, g, [("x", "G")], seed=seed)
        if c.feasible() == "no":
            continue
        if path.thrown:
            c.must_not_throw()
            continue
        c.eq("block_diagonal_of_element_transforms", c.out("transform"), c.spec.T(c.E["x"]))
