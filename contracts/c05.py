"""C05  every analytic Jacobian is the true derivative on the tangent space.

For f with a group-valued result and Jacobian J w.r.t. an input u:
    D T(f)[du_k] == T(f) * hat(J e_k)          (right-Jacobian definition, first order in the perturbation)
for a vector-valued result:  D f[du_k] == J e_k
where du_k is the k-th unit tangent direction, lifted to coefficient space by the
spec's `lift` for group-valued inputs (the lift is itself an obligation:
D T(c)[lift(c,e_k)] == T(c) hat(e_k)), and D is forward-mode differentiation of
the traced expression DAG (rules: sin' = cos, sqrt' = 1/(2 sqrt), atan2' = (x dy - y dx)/(x^2+y^2)).
Exact (normal form) on generic paths; on small-angle paths the residual must be
of second order in the angle and below TAU*scale (TAYLOR).
"""
import numpy as np

from . import common as C
from .common import ctx_for
from . import taylor
from engine.core import Undecided
from engine import fpcheck

HARNESS = C.Harness("h_core.cpp", assertions=True, extra_defines=["VS_STUB_LARGE_INVERSE", "VS_NO_SMALLADJ"])

TAU = 1e-6   # "finite-difference grade" of the property statement


def prebuild_targets(tier):
    return HARNESS.targets(C.groups_for(tier, bundles=False))


def run(rep, tier, seed):
    groups = C.groups_for(tier, bundles=False)
    errs = HARNESS.build(groups)
    from . import c09
    c09.HARNESS.build(groups, native=False)      # (subset-of-outputs scenarios, see check_subsets)
    rep.trust("REAL: machine arithmetic treated as mathematical",
              "A-TRIG: sin^2+cos^2=1, angle-multiple (Chebyshev) rewriting, sin'=cos, cos'=-sin",
              "A-SQRT: sqrt(a)^2=a, sqrt'=1/(2 sqrt); A-ATAN2: sin/cos of atan2(y,x) = y/r, x/r and its derivative",
              "A-TAYLOR: |sin a-(a-a^3/6+a^5/120)| <= |a|^7/5040, |cos a-(1-a^2/2+a^4/24)| <= a^6/720 (small-angle paths)",
              "tracer vsym/sym.h; engine/alg.py (sympy rings/groebner); z3 for path feasibility")
    rep.assume("floating-point cancellation (e.g. 1.5e-7 < |theta| < 1e-2 in double) is NOT decided: proofs are over the reals",
               "singular set of each Jacobian (denominators that vanish, e.g. theta = pi for SO3::log) is excluded by the path's SAFE side conditions")
    rep.assume("Bundles: every Bundle operation / Jacobian is the block-diagonal of its elements' (proved per layout under C11), so the element-group results proved here carry over")
    items = []
    for g in groups:
        if g in errs:
            rep.fail("C05/%s/instantiates" % g, "BUILD", "g++", {"compiler_output": errs[g].output[-3000:]},
                     {"failing_input_reproduced": False})
            continue
        for fn in ("inverse", "compose", "act", "exp"):
            items.append((g, lambda r, g_, t_, s_, fn=fn: check_primitives(r, g_, t_, s_, only=fn)))
        nsh = 8 if g in ("SE3", "SE_2_3", "SGal3") else 1      # log of the large groups: one worker per path (mod 8)
        for i in range(nsh):
            items.append((g, lambda r, g_, t_, s_, i=i, nsh=nsh: check_primitives(r, g_, t_, s_, only="log", shard=(i, nsh))))
        items.append((g, check_tangent_ops))
        items.append((g, check_subsets))
        if g in DERIVED_QUICK or (tier != "quick" and g in DERIVED_THOROUGH):
            for fn in ("rplus", "lplus", "rminus", "lminus", "between"):
                nsh = 4 if g in ("SE3", "SE_2_3", "SGal3") else 1
                for i in range(nsh):
                    items.append((g, lambda r, g_, t_, s_, fn=fn, i=i, nsh=nsh: check_derived(r, g_, t_, s_, only=fn, shard=(i, nsh))))
    rep.parallel(items, lambda r, it: it[1](r, it[0], tier, seed))
    rep.not_run.append("Jacobians of rplus/lplus/rminus/lminus/between by direct differentiation for SGal3: its rjacinv()/ljacinv() are numeric "
                       "inverses (A-EIGEN-INV stubs), and the chain-rule obligations of rminus/lminus combine two different stubbed inverses, "
                       "which the normal form cannot relate; the generic layer is the same code for every group (C04 rule) and is differentiated "
                       "here for SO2, SE2, SO3, SE3, SE_2_3, Rn; rplus/rminus additionally through dual numbers (C12)")


DERIVED_QUICK = ["SO2", "SE2", "SO3", "R3", "SE3", "SE_2_3"]
DERIVED_THOROUGH = []


def check_derived(rep, g, tier, seed, only=None, shard=(0, 1)):
    """LieGroupBase::rplus / lplus / rminus / lminus / between: the returned Jacobians are the true derivatives"""
    for fn in ("rplus", "lplus", "rminus", "lminus", "between"):
        C.check_anchor(rep, "LieGroupBase::%s" % fn, "include/manif/impl/lie_group_base.h")
    sel = lambda scn: only in (None, scn)
    take = lambda paths: [c for k, c in enumerate(paths) if k % shard[1] == shard[0]]
    HARNESS.prefetch(g, [{"rminus": "rminus_rel", "lminus": "lminus_rel"}.get(x, x) for x in ("rplus", "lplus", "rminus", "lminus", "between") if sel(x)])
    for scn in [x for x in ("rplus", "lplus") if sel(x)]:
        for c in take(_paths(rep, g, scn, [("x", "G"), ("t", "T")], seed, scn)):
            rep.progress("%s %s[%s]" % (g, scn, c.path.script))
            taylor.with_taylor(c, TAU, lambda c=c: (c.deriv_group("J_m", c.vec("out"), c.out("Ja"), "x"),
                                                     c.deriv_group("J_t", c.vec("out"), c.out("Jb"), "t")))
    # rminus / lminus: the first operand is written as a product, A = B*Z (rminus) resp. A = Z*B (lminus); (B, Z) -> (A, B)
    # is a bijection of G x G, so "for all A, B" is "for all B, Z", and the relative element Z - whose angle selects log's
    # small-angle branch - is an input variable (Taylor bounds then apply).  With g(B, Z) = f(A(B, Z), B) and compose()'s
    # Jacobians Jcz = dA/dZ, Jcy = dA/dB (invertible; proved under C05/<g>/compose):
    #     D_Z g = Ja * Jcz         D_B g = Ja * Jcy + Jb       <=>   Ja = df/dA,  Jb = df/dB
    for scn in [x for x in ("rminus", "lminus") if sel(x)]:
        for c in take(_paths(rep, g, scn + "_rel", [("y", "G"), ("z", "G")], seed, scn)):
            rep.progress("%s %s[%s]" % (g, scn, c.path.script))
            Ja, Jb, Jcy, Jcz = c.out("Ja"), c.out("Jb"), c.out("Jcy"), c.out("Jcz")
            taylor.with_taylor(c, TAU, lambda c=c: (c.deriv_vec("J_a", c.vec("out"), np.dot(Ja, Jcz), "z"),
                                                     c.deriv_vec("J_b", c.vec("out"), np.dot(Ja, Jcy) + Jb, "y")))
    for c in (take(_paths(rep, g, "between", [("x", "G"), ("y", "G")], seed, "between")) if sel("between") else []):
        taylor.with_taylor(c, TAU, lambda c=c: (c.deriv_group("J_a", c.vec("out"), c.out("Ja"), "x"),
                                                 c.deriv_group("J_b", c.vec("out"), c.out("Jb"), "y")))


def check_tangent_ops(rep, g, tier, seed):
    """TangentBase::plus / minus (Tangent, Tangent): vector sum / difference with Jacobians +-Identity"""
    C.check_anchor(rep, "TangentBase::plus(Tangent)", "include/manif/impl/tangent_base.h", r"\bplus\(")
    C.check_anchor(rep, "TangentBase::minus(Tangent)", "include/manif/impl/tangent_base.h", r"\bminus\(")
    HARNESS.prefetch(g, ["tplus", "tminus"])
    for scn, sign in (("tplus", 1), ("tminus", -1)):
        for c in _paths(rep, g, scn, [("a", "T"), ("b", "T")], seed, scn):
            a, b = np.asarray(c.E["a"], dtype=object), np.asarray(c.E["b"], dtype=object)
            c.eq("value", c.vec("out"), a + b * sign)
            c.no_poison("Ja_written", c.out("Ja"))
            c.no_poison("Jb_written", c.out("Jb"))
            c.deriv_vec("J_a", c.vec("out"), c.out("Ja"), "a")
            c.deriv_vec("J_b", c.vec("out"), c.out("Jb"), "b")


def check_subsets(rep, g, tier, seed):
    """the obligations above differentiate the call that requests every Jacobian; a Jacobian requested ALONE must be the
    same function of the inputs (same expression DAG in one execution) - otherwise a branch taken only for a partial
    request (e.g. `if (J_b && !J_a)`) would escape.  (Same rule as C09, restricted to the Jacobians.)"""
    from . import c09
    errs = c09.HARNESS.build([g], native=False)
    if g in errs:
        raise Undecided("harness h_pure.cpp does not build for %s" % g)
    c09.HARNESS.prefetch(g, ["subsets_" + op for op in c09.SUBSETS2])
    for op in c09.SUBSETS2:
        for path in c09.HARNESS.paths(g, "subsets_" + op):
            if path.thrown:
                continue
            L = "C05/%s/%s_subsets[%s]" % (g, op, path.script)
            c09.same(rep, L, path, "Ja_a", "Ja_ab", "first_jacobian_requested_alone_equals_requested_together")
            c09.same(rep, L, path, "Jb_b", "Jb_ab", "second_jacobian_requested_alone_equals_requested_together")


def _paths(rep, g, scn, decl, seed, label):
    out = []
    nfeas = 0
    for path in HARNESS.paths(g, scn):
        c = ctx_for(rep, "C05/%s/%s[%s]" % (g, label, path.script), path, g, decl,
                    native=HARNESS.native(g, scn), seed=seed)
        f = c.feasible()
        if f == "no":
            continue
        if path.thrown:
            # throwing paths are C08/C13's business; here only non-throwing paths carry obligations
            continue
        nfeas += 1
        rep.progress("%s %s[%s] feasible=%s" % (g, label, path.script, f))
        out.append(c)
    if nfeas == 0:
        rep.undecide("C05/%s/%s/feasible_paths" % (g, label), "FEAS", "z3", "no feasible non-throwing path (vacuity guard)")
    return out


def check_primitives(rep, g, tier, seed, only=None, shard=(0, 1)):
    fam = C.family(g)
    bf, tf = C.base_file(g), C.tangent_base_file(g)
    for fn in ("compose", "inverse", "act", "log"):
        C.check_anchor(rep, "%sBase::%s" % (fam, fn), bf)
    C.check_anchor(rep, "%sTangentBase::exp" % fam, tf)
    HARNESS.prefetch(g, ["inverse", "compose", "act", "exp", "log"] if only is None else [only])

    first = True
    rep.progress("%s obligations start" % g)
    for c in (_paths(rep, g, "inverse", [("x", "G")], seed, "inverse") if only in (None, "inverse") else []):
        if first:
            c.lift_is_sound("spec", "x")
            first = False
        taylor.with_taylor(c, TAU, lambda c=c: c.deriv_group("J", c.vec("out"), c.out("J"), "x"))
    for c in (_paths(rep, g, "compose", [("x", "G"), ("y", "G")], seed, "compose") if only in (None, "compose") else []):
        taylor.with_taylor(c, TAU, lambda c=c: (c.deriv_group("Ja", c.vec("out"), c.out("Ja"), "x"),
                                                 c.deriv_group("Jb", c.vec("out"), c.out("Jb"), "y")))
    for c in (_paths(rep, g, "act", [("x", "G"), ("p", "P")], seed, "act") if only in (None, "act") else []):
        taylor.with_taylor(c, TAU, lambda c=c: (c.deriv_vec("Jm", c.vec("out"), c.out("Jm"), "x"),
                                                 c.deriv_vec("Jp", c.vec("out"), c.out("Jp"), "p")))
    for c in (_paths(rep, g, "exp", [("t", "T")], seed, "exp") if only in (None, "exp") else []):
        rep.progress("%s exp[%s] obligations" % (g, c.path.script))
        taylor.with_taylor(c, TAU, lambda c=c: c.deriv_group("J", c.vec("out"), c.out("J"), "t"))
        fpcheck.compare(rep, c, ["out", "J"], TAU, "exp")
    for k, c in enumerate(_paths(rep, g, "log", [("x", "G")], seed, "log") if only in (None, "log") else []):
        if k % shard[1] != shard[0]:
            continue
        rep.progress("%s log[%s] obligations" % (g, c.path.script))
        M = c.inverse_stub_of("J")
        if M is not None:
            rep.trust("A-EIGEN-INV: for N>4 Eigen's M.inverse() returns X with M*X = I (det M != 0); used for the "
                      "numeric-inverse fallback rjacinv()/ljacinv() of groups without closed forms")
        taylor.with_taylor(c, TAU, lambda c=c, M=M: c.deriv_vec("J", c.vec("out"), c.out("J"), "x", J_inverse_of=M))
        if M is None:
            fpcheck.compare(rep, c, ["out", "J"], TAU, "log")
    rep.progress("%s done" % g)
