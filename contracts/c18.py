"""C18  approximate equality is a well-behaved tolerance relation.

Contracts (eps > 0):
  TangentBase::isApprox(b, eps)   == S(a,b,eps) :=  min(|a|,|b|) < eps ? (for all i |a_i - b_i| <= eps)
                                                                       : |a-b|^2 <= eps^2 min(|a|^2,|b|^2)
        (absolute test against zero, relative test otherwise) - for every path: path condition /\ result != S is unsatisfiable (z3);
        symmetric: no feasible path has a.isApprox(b) != b.isApprox(a);  a.isApprox(a) and a == a hold
  LieGroupBase::isApprox(Y, eps)  is the same computation as X.rminus(Y).isApprox(Zero, eps)    (trace identity)
  X.isApprox(X, eps), X == X      X.rminus(X) is exactly the zero tangent for every valid X (normal form), hence true;
                                  same for the antipodal coefficient vector (q vs -q)
  symmetry of the group relation  follows from log(Y^-1 X) = -log(X^-1 Y) (C03) and the evenness of S in a-b (lemma)
Not decided: X == X evaluating to false at coordinates ~1e9 is a pure rounding effect (over the reals it cannot happen).
"""
import numpy as np

from engine import smt
from . import common as C
from .common import ctx_for

HARNESS = C.Harness("h_approx.cpp", assertions=True, extra_defines=["VS_STUB_LARGE_INVERSE"], auto_valid=True)
SELF_GROUPS = ["SO2", "SE2", "SO3", "R3"]


def prebuild_targets(tier):
    return HARNESS.targets(C.groups_for(tier, bundles=False), native=False)


def run(rep, tier, seed):
    groups = C.groups_for(tier, bundles=False)
    errs = HARNESS.build(groups, native=False)
    rep.trust("REAL; z3 (QF_NRA) on the path conditions; Eigen's isZero/isApprox/min are executed, not assumed",
              "auto-valid tracing assumptions proved by normal form", "A-ATAN2/A-SQRT for X.rminus(X) == 0")
    rep.assume("NOT decided: X == X at coordinates ~1e9 (pure rounding effect)",
               "X.rminus(X) == 0 discharged for SO2, SE2, SO3, Rn (+SE3 thorough); for the other groups it follows from C01 + C03")
    C.check_anchor(rep, "TangentBase::isApprox", "include/manif/impl/tangent_base.h")
    C.check_anchor(rep, "LieGroupBase::isApprox", "include/manif/impl/lie_group_base.h")
    self_groups = SELF_GROUPS + (["SE3"] if tier != "quick" else [])
    items = []
    for g in groups:
        if g in errs:
            rep.fail("C18/%s/instantiates" % g, "BUILD", "g++", {"compiler_output": errs[g].output[-3000:]},
                     {"failing_input_reproduced": False})
            continue
        items.append((g, group_is_tangent_test))
        if g in ("SO2", "SE2", "R3") or (tier != "quick" and g in ("SO3", "SE3")):
            items.append((g, tangent_relation))     # TangentBase::isApprox only sees the coefficient vector: DoF 1 and 3 (quick), 6 (thorough)
        if g in self_groups:
            items.append((g, self_equal))
    rep.parallel(items, lambda r, it: it[1](r, it[0], seed))


def group_is_tangent_test(rep, g, seed):
    HARNESS.prefetch(g, ["group"])
    n = 0
    for path in HARNESS.paths(g, "group"):
        if path.thrown:
            continue
        n += 1
        nm = "C18/%s/group[%s]/isApprox_is_rminus_isApprox_Zero" % (g, path.script)
        if path.ints.get("xy") == path.ints.get("doc"):
            rep.ok(nm, "ID", "trace")
        else:
            rep.fail(nm, "ID", "trace", {"xy": path.ints.get("xy"), "doc": path.ints.get("doc")}, {"failing_input_reproduced": False})
    if n == 0:
        rep.undecide("C18/%s/group/paths" % g, "FEAS", "trace", "no path")


def _query(c, z, extra):
    dec = z.decisions(c.path)
    return z.check(z.base_constraints() + dec + extra)


def tangent_relation(rep, g, seed):
    HARNESS.prefetch(g, ["tangent", "tangent_self"])
    z3 = smt.z3
    for path in HARNESS.paths(g, "tangent"):
        c = ctx_for(rep, "C18/%s/tangent[%s]" % (g, path.script), path, g, [("a", "T"), ("b", "T"), ("e", "M", 1)], seed=seed)
        rep.check_budget()
        if path.thrown:
            c.must_not_throw()
            continue
        alg = c.alg
        a, b, e = c.E["a"], c.E["b"], c.E["e"][0]
        na = alg.sqrt(sum((x * x for x in a), alg.R.zero))
        nb = alg.sqrt(sum((x * x for x in b), alg.R.zero))
        d = a - b
        z = smt.Z3Ctx(alg, 2500)
        E = z.expr(e)
        NA, NB = z.expr(na), z.expr(nb)
        mn = z3.If(NA < NB, NA, NB)
        absd = [z3.If(z.expr(x) >= 0, z.expr(x), -z.expr(x)) for x in d]
        S_abs = z3.And([x <= E for x in absd])
        d2 = z.expr(sum((x * x for x in d), alg.R.zero))
        S_rel = d2 <= E * E * mn * mn
        S = z3.If(mn < E, S_abs, S_rel)
        pos = [E > 0]
        ab, ba = path.ints["ab"], path.ints["ba"]
        # the traced result equals the documented relation
        r, model, dt = _query(c, z, pos + [S if ab == 0 else z3.Not(S)])
        nm = "%s/result_is_documented_relation" % c.label
        if r == "unsat":
            rep.ok(nm, "INEQ", "z3", dt)
        elif r == "sat":
            rep.fail(nm, "INEQ", "z3", {"path": path.key, "isApprox": ab, "model": {k: str(v) for k, v in (model or {}).items() if v is not None}},
                     {"failing_input_reproduced": False, "input": {k: str(v) for k, v in (model or {}).items() if k[0] in "abe" and v is not None}}, dt)
        else:
            rep.standin(nm, "INEQ", "z3-unknown", {"path": path.key})
        # symmetry
        nm = "%s/symmetric" % c.label
        if ab == ba:
            rep.ok(nm, "INEQ", "trace")
        else:
            r, model, dt = _query(c, z, pos)
            if r == "unsat":
                rep.ok(nm, "INEQ", "z3(path infeasible)", dt)
            elif r == "sat":
                rep.fail(nm, "INEQ", "z3", {"path": path.key, "a.isApprox(b)": ab, "b.isApprox(a)": ba,
                                            "model": {k: str(v) for k, v in (model or {}).items() if v is not None}},
                         {"failing_input_reproduced": False}, dt)
            else:
                rep.standin(nm, "INEQ", "z3-unknown", {"path": path.key})
    for path in HARNESS.paths(g, "tangent_self"):
        c = ctx_for(rep, "C18/%s/tangent_self[%s]" % (g, path.script), path, g, [("a", "T"), ("e", "M", 1)], seed=seed)
        if path.thrown:
            c.must_not_throw()
            continue
        nm = "%s/a_isApprox_a" % c.label
        if path.ints["aa"] == 1:
            rep.ok(nm, "INEQ", "trace")
            continue
        z = smt.Z3Ctx(c.alg, 2500)
        r, model, dt = _query(c, z, [z.expr(c.E["e"][0]) > 0])
        if r == "unsat":
            rep.ok(nm, "INEQ", "z3(path infeasible)", dt)
        elif r == "sat":
            rep.fail(nm, "INEQ", "z3", {"path": path.key, "model": {k: str(v) for k, v in (model or {}).items() if v is not None}},
                     {"failing_input_reproduced": False}, dt)
        else:
            rep.standin(nm, "INEQ", "z3-unknown", {"path": path.key})


def self_equal(rep, g, seed):
    scns = ["self"] + (["self_antipodal"] if g in ("SO3", "SE3", "SE_2_3", "SGal3") else [])
    HARNESS.prefetch(g, scns)
    for scn in scns:
        n = 0
        for path in HARNESS.paths(g, scn):
            c = ctx_for(rep, "C18/%s/%s[%s]" % (g, scn, path.script), path, g, [("x", "G"), ("e", "M", 1)], seed=seed)
            rep.check_budget()
            c.extra_facts.append(lambda z: z.zv("e0") > 0)
            if c.feasible() == "no":
                continue
            if path.thrown:
                c.must_not_throw()
                continue
            n += 1
            zero = np.array([c.alg.R.zero] * c.spec.dof, dtype=object)
            ok = c.eq("rminus_of_equal_elements_is_zero", c.vec("diff"), zero)
            nm = "%s/isApprox_true" % c.label
            if path.ints["isApprox"] == 1:
                rep.ok(nm, "INEQ", "trace")
            else:
                rep.fail(nm, "INEQ", "z3", {"path": path.key, "note": "feasible path on which X.isApprox(X, eps) is false"},
                         c.make_replay(c.samples(want=1)[0]) if c.samples(want=1) else {"failing_input_reproduced": False})
        if n == 0:
            rep.undecide("C18/%s/%s/paths" % (g, scn), "FEAS", "z3", "no feasible path")
