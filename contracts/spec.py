"""Independent mathematical model of the groups (the *specification* side).

Everything here is written from the mathematical definitions / the documented
coefficient layouts, never by calling manif.  manif's own accessors
(transform(), rotation(), hat(), Generator()) are verified *against* these.

All functions take numpy object arrays of ring elements (or anything with
+,-,*) and return numpy object arrays.
"""
import numpy as np


def _zeros(r, c, zero):
    m = np.empty((r, c), dtype=object)
    for i in range(r):
        for j in range(c):
            m[i, j] = zero
    return m


def eye(n, zero, one):
    m = _zeros(n, n, zero)
    for i in range(n):
        m[i, i] = one
    return m


def col(v):
    v = np.asarray(v, dtype=object)
    return v.reshape((-1, 1))


def skew3(w, zero):
    w = list(np.asarray(w, dtype=object).reshape(-1))
    m = _zeros(3, 3, zero)
    m[0, 1], m[0, 2] = -w[2], w[1]
    m[1, 0], m[1, 2] = w[2], -w[0]
    m[2, 0], m[2, 1] = -w[1], w[0]
    return m


def rot2(re, im, zero):
    m = _zeros(2, 2, zero)
    m[0, 0], m[0, 1], m[1, 0], m[1, 1] = re, -im, im, re
    return m


def rquat(q, zero, one):
    """rotation matrix of the quaternion q = (x, y, z, w) (Hamilton, passive-free
    textbook formula R = (w^2 - v.v) I + 2 v v^T + 2 w [v]x), valid for unit q"""
    x, y, z, w = list(np.asarray(q, dtype=object).reshape(-1))
    two = one + one
    m = _zeros(3, 3, zero)
    m[0, 0] = one - two * (y * y + z * z)
    m[0, 1] = two * (x * y - z * w)
    m[0, 2] = two * (x * z + y * w)
    m[1, 0] = two * (x * y + z * w)
    m[1, 1] = one - two * (x * x + z * z)
    m[1, 2] = two * (y * z - x * w)
    m[2, 0] = two * (x * z - y * w)
    m[2, 1] = two * (y * z + x * w)
    m[2, 2] = one - two * (x * x + y * y)
    return m


def _qdot(q, w, half):
    """d/de of q (x) exp(e*w) at 0 = 1/2 q (x) (w, 0), q = (x, y, z, w)"""
    x, y, z, s = q
    wx, wy, wz = w
    return [half * (s * wx + y * wz - z * wy),
            half * (s * wy + z * wx - x * wz),
            half * (s * wz + x * wy - y * wx),
            -half * (x * wx + y * wy + z * wz)]


def _matvec(M, v):
    return [sum((M[i, j] * v[j] for j in range(1, len(v))), M[i, 0] * v[0]) for i in range(M.shape[0])]


class GroupSpec:
    """Layout + matrix model of one group.  `c` is always the flat coefficient
    vector (list / 1-d object array of ring elements)."""
    name = None
    rep = dof = dim = msize = None

    def __init__(self, zero, one):
        self.zero, self.one = zero, one

    # ---- to be provided per group
    def T(self, c):            # homogeneous matrix
        raise NotImplementedError

    def valid_eqs(self, c):    # list of polynomials that are 0 on valid elements
        return []

    def hat(self, t):          # Lie algebra matrix of tangent coefficients
        raise NotImplementedError

    def hom(self, p):          # homogeneous embedding of a point acted upon
        raise NotImplementedError

    def unhom(self, h):        # back to the Dim-vector
        return h[:self.dim, 0]

    def rot_part(self, c):     # coefficient sub-vector that must be unit norm (or None)
        return None

    def lift(self, c, d):
        """coefficient-level derivative of X*exp(eps*d) at eps=0 (list, same length as c).
        Verified (not trusted): the check discharges D T(c)[lift(c,d)] == T(c)*hat(d)."""
        raise NotImplementedError

    # ---- derived
    def I(self):
        return eye(self.msize, self.zero, self.one)

    @property
    def asize(self):
        """size of the Lie-algebra matrix as documented (SO2: 2, SO3: 3, else the homogeneous size)"""
        return self.msize

    def hat_h(self, t):
        """hat(t) embedded in the homogeneous (msize x msize) representation"""
        return self.hat(t)

    def basis(self, i):
        e = [self.zero] * self.dof
        e[i] = self.one
        return self.hat(e)

    def basis_h(self, i):
        e = [self.zero] * self.dof
        e[i] = self.one
        return self.hat_h(e)


def _lst(c):
    return list(np.asarray(c, dtype=object).reshape(-1))


class SO2Spec(GroupSpec):
    name, rep, dof, dim, msize = "SO2", 2, 1, 2, 3
    # coefficients: (real, imag) of the unit complex number

    def T(self, c):
        re, im = _lst(c)
        m = self.I()
        m[:2, :2] = rot2(re, im, self.zero)
        return m

    def valid_eqs(self, c):
        re, im = _lst(c)
        return [re * re + im * im - self.one]

    def rot_part(self, c):
        return _lst(c)

    asize = 2

    def hat(self, t):
        (th,) = _lst(t)
        m = _zeros(2, 2, self.zero)
        m[0, 1], m[1, 0] = -th, th
        return m

    def hat_h(self, t):
        m = _zeros(3, 3, self.zero)
        m[:2, :2] = self.hat(t)
        return m

    def lift(self, c, d):
        re, im = _lst(c)
        (th,) = _lst(d)
        return [-im * th, re * th]

    def hom(self, p):
        return col(_lst(p) + [self.one])


class SE2Spec(GroupSpec):
    name, rep, dof, dim, msize = "SE2", 4, 3, 2, 3
    # coefficients: (x, y, real, imag); tangent: (x, y, theta)

    def T(self, c):
        x, y, re, im = _lst(c)
        m = self.I()
        m[:2, :2] = rot2(re, im, self.zero)
        m[0, 2], m[1, 2] = x, y
        return m

    def valid_eqs(self, c):
        x, y, re, im = _lst(c)
        return [re * re + im * im - self.one]

    def rot_part(self, c):
        return _lst(c)[2:4]

    def hat(self, t):
        x, y, th = _lst(t)
        m = _zeros(3, 3, self.zero)
        m[0, 1], m[1, 0] = -th, th
        m[0, 2], m[1, 2] = x, y
        return m

    def lift(self, c, d):
        x, y, re, im = _lst(c)
        dx, dy, th = _lst(d)
        return [re * dx - im * dy, im * dx + re * dy, -im * th, re * th]

    def hom(self, p):
        return col(_lst(p) + [self.one])


class SO3Spec(GroupSpec):
    name, rep, dof, dim, msize = "SO3", 4, 3, 3, 4
    # coefficients: quaternion (x, y, z, w); tangent: rotation vector

    def T(self, c):
        m = self.I()
        m[:3, :3] = rquat(c, self.zero, self.one)
        return m

    def valid_eqs(self, c):
        x, y, z, w = _lst(c)
        return [x * x + y * y + z * z + w * w - self.one]

    def rot_part(self, c):
        return _lst(c)

    asize = 3

    def hat(self, t):
        return skew3(t, self.zero)

    def hat_h(self, t):
        m = _zeros(4, 4, self.zero)
        m[:3, :3] = skew3(t, self.zero)
        return m

    def lift(self, c, d):
        half = self.one / 2
        return _qdot(_lst(c), _lst(d), half)

    def hom(self, p):
        return col(_lst(p) + [self.one])


class SE3Spec(GroupSpec):
    name, rep, dof, dim, msize = "SE3", 7, 6, 3, 4
    # coefficients: (t(3), quaternion xyzw); tangent: (rho(3), theta(3))

    def T(self, c):
        c = _lst(c)
        m = self.I()
        m[:3, :3] = rquat(c[3:7], self.zero, self.one)
        m[0, 3], m[1, 3], m[2, 3] = c[0], c[1], c[2]
        return m

    def valid_eqs(self, c):
        x, y, z, w = _lst(c)[3:7]
        return [x * x + y * y + z * z + w * w - self.one]

    def rot_part(self, c):
        return _lst(c)[3:7]

    def hat(self, t):
        t = _lst(t)
        m = _zeros(4, 4, self.zero)
        m[:3, :3] = skew3(t[3:6], self.zero)
        m[0, 3], m[1, 3], m[2, 3] = t[0], t[1], t[2]
        return m

    def lift(self, c, d):
        c, d = _lst(c), _lst(d)
        half = self.one / 2
        R = rquat(c[3:7], self.zero, self.one)
        return _matvec(R, d[0:3]) + _qdot(c[3:7], d[3:6], half)

    def hom(self, p):
        return col(_lst(p) + [self.one])


class SE23Spec(GroupSpec):
    name, rep, dof, dim, msize = "SE_2_3", 10, 9, 3, 5
    # coefficients: (p(3), quaternion xyzw, v(3)); matrix [R p v; 0 1 0; 0 0 1]
    # tangent: (rho(3), theta(3), nu(3))

    def T(self, c):
        c = _lst(c)
        m = self.I()
        m[:3, :3] = rquat(c[3:7], self.zero, self.one)
        for i in range(3):
            m[i, 3] = c[i]
            m[i, 4] = c[7 + i]
        return m

    def valid_eqs(self, c):
        x, y, z, w = _lst(c)[3:7]
        return [x * x + y * y + z * z + w * w - self.one]

    def rot_part(self, c):
        return _lst(c)[3:7]

    def hat(self, t):
        t = _lst(t)
        m = _zeros(5, 5, self.zero)
        m[:3, :3] = skew3(t[3:6], self.zero)
        for i in range(3):
            m[i, 3] = t[i]
            m[i, 4] = t[6 + i]
        return m

    def lift(self, c, d):
        c, d = _lst(c), _lst(d)
        half = self.one / 2
        R = rquat(c[3:7], self.zero, self.one)
        return _matvec(R, d[0:3]) + _qdot(c[3:7], d[3:6], half) + _matvec(R, d[6:9])

    def hom(self, p):
        # a point: affected by rotation and translation only
        return col(_lst(p) + [self.one, self.zero])


class SGal3Spec(GroupSpec):
    name, rep, dof, dim, msize = "SGal3", 11, 10, 3, 5
    # coefficients: (p(3), quaternion xyzw, v(3), t); matrix [R v p; 0 1 t; 0 0 1]
    # tangent: (rho(3), nu(3), theta(3), s); algebra [ [theta]x nu rho; 0 0 s; 0 0 0 ]

    def T(self, c):
        c = _lst(c)
        m = self.I()
        m[:3, :3] = rquat(c[3:7], self.zero, self.one)
        for i in range(3):
            m[i, 3] = c[7 + i]
            m[i, 4] = c[i]
        m[3, 4] = c[10]
        return m

    def valid_eqs(self, c):
        x, y, z, w = _lst(c)[3:7]
        return [x * x + y * y + z * z + w * w - self.one]

    def rot_part(self, c):
        return _lst(c)[3:7]

    def hat(self, t):
        t = _lst(t)
        m = _zeros(5, 5, self.zero)
        m[:3, :3] = skew3(t[6:9], self.zero)
        for i in range(3):
            m[i, 3] = t[3 + i]
            m[i, 4] = t[i]
        m[3, 4] = t[9]
        return m

    def lift(self, c, d):
        c, d = _lst(c), _lst(d)
        half = self.one / 2
        R = rquat(c[3:7], self.zero, self.one)
        Rrho, Rnu = _matvec(R, d[0:3]), _matvec(R, d[3:6])
        pdot = [Rrho[i] + c[7 + i] * d[9] for i in range(3)]
        return pdot + _qdot(c[3:7], d[6:9], half) + Rnu + [d[9]]

    def hom(self, p):
        # a point at time 0: (p, 0, 1)
        return col(_lst(p) + [self.zero, self.one])


class RnSpec(GroupSpec):
    def __init__(self, n, zero, one):
        GroupSpec.__init__(self, zero, one)
        self.n = n
        self.name = "R%d" % n
        self.rep = self.dof = self.dim = n
        self.msize = n + 1

    def T(self, c):
        c = _lst(c)
        m = self.I()
        for i in range(self.n):
            m[i, self.n] = c[i]
        return m

    def hat(self, t):
        t = _lst(t)
        m = _zeros(self.n + 1, self.n + 1, self.zero)
        for i in range(self.n):
            m[i, self.n] = t[i]
        return m

    def lift(self, c, d):
        return _lst(d)

    def hom(self, p):
        return col(_lst(p) + [self.one])


class BundleSpec(GroupSpec):
    """direct product: block-diagonal matrix, concatenated coefficients"""

    def __init__(self, elems, zero, one):
        GroupSpec.__init__(self, zero, one)
        self.elems = elems
        self.name = "Bundle<" + ",".join(e.name for e in elems) + ">"
        self.rep = sum(e.rep for e in elems)
        self.dof = sum(e.dof for e in elems)
        self.dim = sum(e.dim for e in elems)
        self.msize = sum(e.msize for e in elems)

    def offsets(self, attr):
        o, out = 0, []
        for e in self.elems:
            out.append(o)
            o += getattr(e, attr)
        return out

    def split(self, c, attr):
        c = _lst(c)
        return [c[o:o + getattr(e, attr)] for o, e in zip(self.offsets(attr), self.elems)]

    def T(self, c):
        m = _zeros(self.msize, self.msize, self.zero)
        for o, e, ce in zip(self.offsets("msize"), self.elems, self.split(c, "rep")):
            m[o:o + e.msize, o:o + e.msize] = e.T(ce)
        return m

    def valid_eqs(self, c):
        out = []
        for e, ce in zip(self.elems, self.split(c, "rep")):
            out += e.valid_eqs(ce)
        return out

    @property
    def asize(self):
        return sum(e.asize for e in self.elems)

    def hat(self, t):
        n = self.asize
        m = _zeros(n, n, self.zero)
        for o, e, te in zip(self.offsets("asize"), self.elems, self.split(t, "dof")):
            m[o:o + e.asize, o:o + e.asize] = e.hat(te)
        return m

    def hat_h(self, t):
        m = _zeros(self.msize, self.msize, self.zero)
        for o, e, te in zip(self.offsets("msize"), self.elems, self.split(t, "dof")):
            m[o:o + e.msize, o:o + e.msize] = e.hat_h(te)
        return m

    def lift(self, c, d):
        out = []
        for e, ce, de in zip(self.elems, self.split(c, "rep"), self.split(d, "dof")):
            out += e.lift(ce, de)
        return out

    def hom(self, p):
        rows = []
        for e, pe in zip(self.elems, self.split(p, "dim")):
            rows += list(e.hom(pe).reshape(-1))
        return col(rows)

    def unhom(self, h):
        out = []
        for o, e in zip(self.offsets("msize"), self.elems):
            out += list(h[o:o + e.dim, 0])
        return np.array(out, dtype=object)


_SIMPLE = {"SO2": SO2Spec, "SE2": SE2Spec, "SO3": SO3Spec, "SE3": SE3Spec,
           "SE_2_3": SE23Spec, "SGal3": SGal3Spec}


def make_spec(gname, zero, one):
    """gname: 'SO3', 'R5', or 'Bundle:SO2,SE3,R3'"""
    if gname in _SIMPLE:
        return _SIMPLE[gname](zero, one)
    if gname.startswith("R") and gname[1:].isdigit():
        return RnSpec(int(gname[1:]), zero, one)
    if gname.startswith("Bundle:"):
        return BundleSpec([make_spec(e, zero, one) for e in gname[7:].split(",")], zero, one)
    raise KeyError(gname)


def cpp_type(gname):
    """C++ type (over vs::Sym) for a group name"""
    if gname in _SIMPLE:
        return "manif::%s<vs::Sym>" % gname
    if gname.startswith("R") and gname[1:].isdigit():
        return "manif::Rn<vs::Sym,%s>" % gname[1:]
    if gname.startswith("Bundle:"):
        parts = []
        for e in gname[7:].split(","):
            if e.startswith("R") and e[1:].isdigit():
                parts.append("manif::R%s" % e[1:])
            else:
                parts.append("manif::" + e)
        return "manif::Bundle<vs::Sym," + ",".join(parts) + ">"
    raise KeyError(gname)


def file_tag(gname):
    return gname.replace(":", "_").replace(",", "_")
