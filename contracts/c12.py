"""C12  generic in the scalar: dual numbers differentiate every operation correctly.

The whole E1 apparatus IS an instantiation over a non-fundamental scalar (vs::Sym); on top of it
vs::Jet<N> (vsym/jet.h, written after ceres::Jet) gives forward-mode dual numbers over Sym.  Contracts:
  primal      the primal part of every operation over Jet is the same expression as the plain-scalar run
              (same-execution DAG identity)
  dual        d/dd [ f(X (+) d) (-) f(X) ] at d = 0, read off the dual parts, equals the analytic Jacobian returned by
              the same operation (normal form; evaluated on the small-angle branches that d = 0 selects - a Taylor
              branch with a wrong first-order term fails here)     for inverse, log, exp, compose, act, rplus, rminus
  functors    CeresManifoldFunctor::Plus / Minus and CeresLocalParameterizationFunctor over raw pointers compute
              X (+) d and Y (-) X (same expression as the members), also through Jet (primal parts)
Not decided: single precision agrees with double to single-precision accuracy (REAL); ceres / autodiff themselves
(not installed): vs::Jet is a stand-in, its abs() keeps the primal symbolic instead of branching on the sign.
"""
import numpy as np

from . import common as C
from .common import ctx_for
from . import taylor, c03

HARNESS = C.Harness("h_jet.cpp", assertions=True, extra_defines=["VS_STUB_LARGE_INVERSE"], auto_valid=True)
TAU = c03.TAU
QUICK = ["SO2", "SE2", "SO3", "R3"]


def groups(tier):
    import os
    if os.environ.get("VERIF_GROUPS"):
        return os.environ["VERIF_GROUPS"].split(";")
    return QUICK if tier == "quick" else QUICK + ["SE3", "SE_2_3", "SGal3"]


def prebuild_targets(tier):
    return HARNESS.targets(groups(tier), native=False)


def same(rep, L, path, a, b, what):
    oa, ob = path.outs[a], path.outs[b]
    nm = "%s/%s" % (L, what)
    if list(oa.ids) == list(ob.ids):
        rep.ok(nm, "ID", "dag")
        return True
    return False


def run(rep, tier, seed):
    gs = groups(tier)
    errs = HARNESS.build(gs, native=False)
    rep.trust("REAL; vs::Jet<N> (vsym/jet.h) as a stand-in for ceres::Jet: same operator set, comparisons on the primal part, chain rules of ceres/jet.h; "
              "abs() keeps the primal symbolic (|x| node) instead of branching on its sign",
              "tracer, normal form, A-TRIG/A-SQRT/A-ATAN2/A-TAYLOR; auto-valid tracing")
    rep.assume("NOT decided: 'single precision agrees with double to single-precision accuracy' (needs rounding); real ceres::Jet / autodiff types (not installed)",
               "SE_2(3) and SGal(3) in the thorough tier only")
    for f, h in (("CeresManifoldFunctor", "manifold.h"), ("CeresLocalParameterizationFunctor", "local_parametrization.h")):
        C.check_anchor(rep, "manif::" + f, "include/manif/ceres/" + h)
    items = []
    for g in gs:
        if g in errs:
            lines = [l for l in errs[g].output.splitlines() if "error" in l][:6]
            rep.fail("C12/%s/instantiates_over_dual_numbers" % g, "BUILD", "g++", {"compiler_output": "\n".join(lines)},
                     {"failing_input_reproduced": True, "demonstration": "manif::%s<Jet> does not compile" % g})
            continue
        for scn in all_scenarios(g):
            nsh = 12 if (scn == "jet_rplus_rminus" and g == "SO3") else (4 if g in ("SE3", "SE_2_3", "SGal3") else 1)      # the heavy one: one worker per path (mod 12)
            for i in range(nsh):
                items.append((g, scn, (i, nsh)))
    rep.parallel(items, lambda r, it: check(r, it[0], seed, only=it[1], shard=it[2]))


def _eq_or_dag(rep, c, path, L, a, b, what):
    if not same(rep, L, path, a, b, what):
        taylor.with_taylor(c, TAU, lambda: c.eq(what, c.out(a), c.out(b)))


def all_scenarios(g):
    scns = ["jet_inverse", "jet_log", "jet_exp", "jet_compose_a", "jet_act", "functors"]
    if g in ("SO2", "SE2", "SO3", "R3"):
        scns.append("jet_rplus_rminus")
    return scns


def check(rep, g, seed, only=None, shard=(0, 1)):
    scns = ["jet_inverse", "jet_log", "jet_exp", "jet_compose_a", "jet_act", "functors"]
    if g in ("SO2", "SE2", "SO3", "R3"):
        scns.append("jet_rplus_rminus")
    if only is not None:
        scns = [x for x in scns if x == only]
    HARNESS.prefetch(g, scns)
    decl = [("x", "G"), ("y", "G"), ("z", "G"), ("t", "T"), ("p", "P")]
    spec = {
        "jet_inverse": [("primal", "plain")], "jet_log": [("primal", "plain")], "jet_exp": [("primal", "plain")],
        "jet_compose_a": [("primal", "plain")], "jet_act": [("primal", "plain")],
        "jet_rplus_rminus": [("primal_rplus", "plain_rplus"), ("primal_rminus", "plain_rminus")],
    }
    duals = {
        "jet_inverse": [("dual", "J")], "jet_log": [("dual", "J")], "jet_exp": [("dual", "J")],
        "jet_compose_a": [("dual_a", "Ja"), ("dual_b", "Jb")], "jet_act": [("dual", "Jm")],
        "jet_rplus_rminus": [("rplus_dual_a", "rplus_Ja"), ("rplus_dual_b", "rplus_Jb"), ("rminus_dual_a", "rminus_Ka"), ("rminus_dual_b", "rminus_Kb")],
    }
    for scn in scns:
        if scn == "functors":
            continue
        n = 0
        for kpath, path in enumerate(HARNESS.paths(g, scn)):
            if kpath % shard[1] != shard[0]:
                n += 1
                continue
            rep.check_budget()
            c = ctx_for(rep, "C12/%s/%s[%s]" % (g, scn, path.script), path, g, decl, seed=seed)
            if c.feasible() == "no":
                continue
            if path.thrown:
                c.must_not_throw()
                continue
            n += 1
            L = c.label
            for a, b in spec[scn]:
                _eq_or_dag(rep, c, path, L, a, b, "%s_is_the_plain_scalar_value" % a)
            for a, b in duals[scn]:
                taylor.with_taylor(c, TAU, lambda c=c, a=a, b=b: c.eq("%s_equals_analytic_%s" % (a, b), c.out(a), c.out(b)))
        if n == 0:
            rep.undecide("C12/%s/%s/paths" % (g, scn), "FEAS", "z3", "no feasible path")
    for path in (HARNESS.paths(g, "functors") if "functors" in scns else []):
        c = ctx_for(rep, "C12/%s/functors[%s]" % (g, path.script), path, g, decl, seed=seed)
        if path.thrown:
            if c.feasible() != "no":
                c.must_not_throw()
            continue
        L = c.label
        for a, b, what in (("manifold_plus", "doc_plus", "CeresManifoldFunctor::Plus_is_X_plus_d"),
                           ("manifold_minus", "doc_minus", "CeresManifoldFunctor::Minus_is_Y_minus_X"),
                           ("localparam_plus", "doc_plus", "CeresLocalParameterizationFunctor_is_X_plus_d"),
                           ("manifold_plus_jet_primal", "doc_plus", "Plus_over_dual_numbers_has_the_same_primal")):
            if not same(rep, L, path, a, b, what):
                c.eq(what, c.vec(a), c.vec(b))
