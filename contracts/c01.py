"""C01  compose / inverse / identity / act realise the matrix group.

Contracts (pre: valid(X), valid(Y) i.e. unit-norm rotation part, exact):
  <G>Base::compose   ensures  T(out) == T(X) * T(Y)         and valid(out), never throws
  <G>Base::inverse   ensures  T(out) * T(X) == I == T(X) * T(out), valid(out), never throws
  <G>Base::act       ensures  hom(out) == T(X) * hom(p)
  <G>Base::transform ensures  transform() == T_spec(X)      (ties manif's accessor to the independent model)
  LieGroupBase::Identity / setIdentity  ensures T(out) == I
  LieGroupBase::operator*  ensures  same coefficients as compose
T, hom are the independent spec functions of contracts/spec.py.
Associativity / two-sided inverse / neutrality then follow by matrix algebra
(lemma, not re-proved per group).
"""
import numpy as np

from . import common as C
from .common import ctx_for
from engine import fpcheck

HARNESS = C.Harness("h_core.cpp", assertions=True)

SCENARIOS = ["compose", "op_mul", "inverse", "act", "identity", "transform"]


def run(rep, tier, seed):
    groups = C.groups_for(tier)
    errs = HARNESS.build(groups)
    rep.trust("REAL: machine arithmetic treated as mathematical (Scalar = real number)",
              "g++ template instantiation over vs::Sym equals the instantiation a Jet user gets",
              "tracer vsym/sym.h, engine/alg.py normal form (sympy polys.rings + groebner), mpmath")
    rep.assume("floating-point clause of C01 ('to working precision') is NOT decided: proofs are over the reals")
    for g in groups:
        if g in errs:
            # the function under contract cannot be instantiated: decisive failure
            rep.fail("C01/%s/instantiates" % g, "BUILD", "g++",
                     {"compiler_output": errs[g].output[-3000:]},
                     {"failing_input_reproduced": False, "note": "harness h_core.cpp does not compile for " + g})
            continue
        check_group(rep, g, tier, seed)


def check_group(rep, g, tier, seed):
    fam = C.family(g)
    bf = C.base_file(g)
    for fn in ("compose", "inverse", "act", "transform"):
        C.check_anchor(rep, "%sBase::%s" % (fam, fn), bf)
    C.check_anchor(rep, "LieGroupBase::Identity", "include/manif/impl/lie_group_base.h")
    C.check_anchor(rep, "LieGroupBase::setIdentity", "include/manif/impl/lie_group_base.h")
    C.check_anchor(rep, "LieGroupBase::operator*", "include/manif/impl/lie_group_base.h", r"operator \*")
    HARNESS.prefetch(g, [s for s in SCENARIOS if not (fam == "Bundle" and s == "transform")] + ["compose__"])

    # ---- compose
    for scn in ("compose",):
        feas = 0
        for path in HARNESS.paths(g, scn):
            c = ctx_for(rep, "C01/%s/compose[%s]" % (g, path.script), path, g, [("x", "G"), ("y", "G")],
                        native=HARNESS.native(g, scn), seed=seed)
            if not c.nf_feasible():
                continue
            if path.thrown:
                c.must_not_throw()
                continue
            feas += 1
            sp = c.spec
            X, Y, out = c.E["x"], c.E["y"], c.vec("out")
            c.eq("matrix", sp.T(out), np.dot(sp.T(X), sp.T(Y)))
            c.eq("closed", np.array(sp.valid_eqs(out), dtype=object), np.array([c.alg.R.zero] * len(sp.valid_eqs(out)), dtype=object))
            if fam != "Bundle":
                fpcheck.compare(rep, c, ["out"], 1e-9, "compose_value", n=4)      # 'to working precision in floating point': sampled stand-in
        if feas == 0:
            rep.undecide("C01/%s/compose/feasible_paths" % g, "FEAS", "nf", "no feasible non-throwing path (vacuity guard)")

    # ---- operator* is compose
    p1 = [p for p in HARNESS.paths(g, "op_mul")]
    p0 = {p.script: p for p in HARNESS.paths(g, "compose__")}
    for path in p1:
        c = ctx_for(rep, "C01/%s/operator*[%s]" % (g, path.script), path, g, [("x", "G"), ("y", "G")], seed=seed)
        if not c.nf_feasible() or path.thrown:
            continue
        ref = p0.get(path.script)
        if ref is None or ref.thrown:
            rep.undecide("C01/%s/operator*[%s]" % (g, path.script), "ID", "dag", "no matching compose path")
            continue
        c2 = ctx_for(rep, "x", ref, g, [("x", "G"), ("y", "G")], seed=seed)
        # same variables, so polynomials can be compared through their string form in one ring
        same = [str(a) == str(b) for a, b in zip(c.vec("out"), c2.vec("out"))]
        if all(same):
            rep.ok("C01/%s/operator*[%s]/same_as_compose" % (g, path.script), "ID", "dag")
        else:
            rep.fail("C01/%s/operator*[%s]/same_as_compose" % (g, path.script), "ID", "dag",
                     {"differs_at": [i for i, s in enumerate(same) if not s]}, {"failing_input_reproduced": False})

    # ---- inverse
    feas = 0
    for path in HARNESS.paths(g, "inverse"):
        c = ctx_for(rep, "C01/%s/inverse[%s]" % (g, path.script), path, g, [("x", "G")],
                    native=HARNESS.native(g, "inverse"), seed=seed)
        if not c.nf_feasible():
            continue
        if path.thrown:
            c.must_not_throw()
            continue
        feas += 1
        sp = c.spec
        X, out = c.E["x"], c.vec("out")
        c.eq("left_inverse", np.dot(sp.T(out), sp.T(X)), sp.I())
        c.eq("right_inverse", np.dot(sp.T(X), sp.T(out)), sp.I())
        c.eq("closed", np.array(sp.valid_eqs(out), dtype=object), np.array([c.alg.R.zero] * len(sp.valid_eqs(out)), dtype=object))
    if feas == 0:
        rep.undecide("C01/%s/inverse/feasible_paths" % g, "FEAS", "nf", "no feasible path")

    # ---- act
    feas = 0
    for path in HARNESS.paths(g, "act"):
        c = ctx_for(rep, "C01/%s/act[%s]" % (g, path.script), path, g, [("x", "G"), ("p", "P")],
                    native=HARNESS.native(g, "act"), seed=seed)
        if not c.nf_feasible():
            continue
        if path.thrown:
            c.must_not_throw()
            continue
        feas += 1
        sp = c.spec
        X, p, out = c.E["x"], c.E["p"], c.vec("out")
        c.eq("homogeneous_action", out, sp.unhom(np.dot(sp.T(X), sp.hom(p))))
        if fam != "Bundle":
            fpcheck.compare(rep, c, ["out"], 1e-9, "act_value", n=4)
    if feas == 0:
        rep.undecide("C01/%s/act/feasible_paths" % g, "FEAS", "nf", "no feasible path")

    # ---- identity
    feas = 0
    for path in HARNESS.paths(g, "identity"):
        c = ctx_for(rep, "C01/%s/Identity[%s]" % (g, path.script), path, g, [("x", "G")],
                    native=HARNESS.native(g, "identity"), seed=seed, exact_valid=False)
        if not c.nf_feasible():
            continue
        if path.thrown:
            c.must_not_throw()
            continue
        feas += 1
        sp = c.spec
        c.eq("Identity_is_I", sp.T(c.vec("Identity")), sp.I())
        c.eq("setIdentity_is_I", sp.T(c.vec("setIdentity")), sp.I())
    if feas == 0:
        rep.undecide("C01/%s/identity/feasible_paths" % g, "FEAS", "nf", "no feasible path")

    # ---- transform() agrees with the independent model
    if fam != "Bundle":   # Bundle::transform is handled under C11
        for path in HARNESS.paths(g, "transform"):
            c = ctx_for(rep, "C01/%s/transform[%s]" % (g, path.script), path, g, [("x", "G")],
                        native=HARNESS.native(g, "transform"), seed=seed)
            if not c.nf_feasible() or path.thrown:
                continue
            c.eq("equals_spec", c.out("transform"), c.spec.T(c.E["x"]))


def prebuild_targets(tier):
    return HARNESS.targets(C.groups_for(tier))
