"""Which properties are claimed, with which level / technique (source of MANIFEST.json)."""

ENGINES = [
    {"name": "E3", "path": "cbmc/", "serves_properties": ["C07", "C15", "C17"],
     "kind_free_text": "rule-based mechanical extraction of integer / control-flow code to C (every rule must fire) + CBMC 6.11 code contracts "
                       "(goto-instrument --dfcc --enforce-contract --replace-call-with-contract --apply-loop-contracts)"},
    {"name": "E1", "path": "vsym/ + engine/", "serves_properties": ["C01", "C02", "C03", "C04", "C05", "C06", "C07", "C08", "C09", "C10", "C11", "C12", "C13", "C15", "C16", "C18"],
     "kind_free_text": "symbolic-scalar instantiation of the real templates (g++), per-path strongest postcondition, "
                       "obligations discharged by exact polynomial normal form modulo the precondition ideal (sympy rings/groebner), z3 for feasibility"},
]

NOTES = ("Contract-based deductive verification. The verified text is the real code: the templates of /repo/include are "
         "compiled by g++ with Scalar = vs::Sym on every run (content-addressed cache), executed once per branch-decision vector, "
         "and every ensures clause of contracts/*.py is discharged per path over the reals. See DESIGN.md.")

_REAL = ("Trusted: REAL (machine arithmetic treated as mathematical: Scalar is a real number, double literals are their exact binary value); "
         "g++ instantiation over vs::Sym equals the one a ceres::Jet user gets; tracer sym.h; sympy ring arithmetic/groebner; mpmath for counterexample search. ")

CLAIMED = {
    "C01": {
        "text": "Proof over the reals, for all valid inputs and both quaternion hemispheres, that compose/inverse/Identity/act of every group realise "
                "the homogeneous-matrix group (T(X*Y)=T(X)T(Y), T(X^-1)T(X)=I=T(X)T(X^-1), T(Identity)=I, act = T applied to hom(p)), closure of validity, "
                "and that no assertion can fire; Rn for n in {1,2,3,5,9} and the enumerated Bundle layouts.",
        "note": _REAL + "Not decided: the floating-point clause ('to working precision').",
        "technique": "contracts on the real templates, per-path VC generation by symbolic-scalar execution, exact polynomial normal form modulo the unit-norm ideal",
    },
}

CLAIMED["C05"] = {
    "text": "Proof over the reals that every Jacobian returned by inverse/compose/act/exp/log of every group is the right-Jacobian "
            "(D T(f)[du] = T(f) hat(J du), plain differences for vector arguments/results) on all generic paths, by forward-mode differentiation "
            "of the traced DAG and exact normal form; on small-angle paths the residual is bounded by 1e-6*scale for all inputs of the path (interval bound).",
    "note": _REAL + "A-TRIG, A-SQRT, A-ATAN2, A-TAYLOR axioms for the libm atoms. Not decided: floating-point cancellation.",
    "technique": "contracts on the real templates; per-path VCs by symbolic-scalar execution; forward-mode differentiation + polynomial normal form; interval bound on small-angle paths",
}

CLAIMED["C06"] = {
    "text": "Proof over the reals that rjac/ljac are the right/left trivialised differentials of exp (hence the series), ljac(t)=rjac(-t), "
            "rjac*rjacinv = I = ljac*ljacinv, adj(X) is conjugation on the algebra, Adj(exp t) rjac = ljac, Adj is a homomorphism and "
            "smallAdj is the commutator, on all generic paths; interval bound 1e-6*scale on small-angle paths.",
    "note": _REAL + "A-TRIG/A-SQRT/A-TAYLOR, L-SERIES, A-EIGEN-INV (LU fallback stub for N>4). Not decided: floating-point accuracy near the switch-over.",
    "technique": "contracts on the real templates; per-path VCs by symbolic-scalar execution; forward-mode differentiation + polynomial normal form; interval bound on small-angle paths",
}

CLAIMED["C07"] = {
    "text": "Exact proof (polynomial identities over QQ, no transcendental atoms) that Generator(i) is the documented basis for 0<=i<DoF, "
            "hat = sum t_i E_i, Vee inverts hat, hat(Bracket(a,b)) is the matrix commutator, inner is the Frobenius inner product with "
            "InnerWeights symmetric positive definite, weightedNorm its norm; the index dispatch of every GeneratorEvaluator::run is put "
            "under a CBMC code contract covering all 2^32 indices (out-of-range raises).",
    "note": "Trusted: g++ instantiation over vs::Sym; tracer; sympy ring arithmetic; CBMC 6.11 and the extraction rules of cbmc/generator_index.py "
            "(case bodies replaced by the index of the static they return). Bundle layouts enumerated, Rn for n in {1,2,3,5,9}.",
    "technique": "contracts on the real templates discharged by exact polynomial normal form; CBMC code contract (goto-instrument --dfcc --enforce-contract) on the mechanically extracted index switch",
    "engine": "E1+E3",
}

CLAIMED["C02"] = {
    "text": "Proof over the reals that on the generic path exp satisfies the defining ODE of the matrix exponential along every ray "
            "(d/ds T(exp(su)) = T(exp(su)) hat(u)), tends to I at 0, stays valid and never divides by zero, hence equals expm(hat t) for every t (L-ODE); "
            "every Taylor branch is within 4*eps*scale of that closed form for all inputs of the branch (interval bound with bounded Taylor remainders).",
    "note": _REAL + "L-ODE uniqueness lemma; A-TRIG/A-SQRT/A-TAYLOR. Not decided: floating-point accuracy / overflow.",
    "technique": "contracts on the real templates; forward-mode differentiation of the traced DAG + polynomial normal form (ODE characterisation); interval bound between branches; z3 for SAFE",
}

CLAIMED["C03"] = {
    "text": "Proof over the reals that exp(log X) = X as a transformation for every valid X (both quaternion hemispheres, traced directly on symbolic "
            "valid coefficients), log(exp t) = t for |angle| < pi, the antipodal coefficient vector has the same logarithm, the angle of log X is at most pi "
            "and no denominator vanishes on any feasible path; Taylor branches within 64*eps*scale.",
    "note": _REAL + "L-POLAR (reading log_exp/antipodal as statements on every valid element), A-TRIG quadrant facts, A-ATAN2, A-TAYLOR. "
            "Not decided: floating point within 1e-6 of pi. Bundles covered element-wise by C11.",
    "technique": "contracts on the real templates; per-path VCs by symbolic-scalar execution; polynomial normal form with atan2/sqrt/abs sign-case rules; z3 for angle range and SAFE",
}

CLAIMED["C13"] = {
    "text": "Proof over the reals that every constructor (angle, complex, quaternion, angle-axis, roll-pitch-yaw for all angles, parts, sub-group element, raw data) "
            "stores the promised coefficients / rotation matrix, accessors return them, rotation() is orthonormal with det +1, accessors fed back reproduce "
            "the element, normalize() yields unit norm, cast keeps the transformation; with assertions the raw-data constructor throws invalid_argument iff "
            "the norm is outside the threshold (z3 on the path conditions), with NDEBUG never.",
    "note": _REAL + "A-TRIG/A-SQRT/A-ATAN2. Not decided: cast precision; Eigen isometry->quaternion constructors of SE3/SE_2_3/SGal3 (listed under not_run).",
    "technique": "contracts on the real constructors/accessors; per-path VCs by symbolic-scalar execution; polynomial normal form; z3 on path conditions for the validation threshold",
}

CLAIMED["C11"] = {
    "text": "Per enumerated layout, proof that every Bundle operation equals the element operations placed at offsets the spec computes as prefix sums "
            "(values by normal form in one DAG; Jacobians block-diagonal with literal constant zeros elsewhere; element<i>() pointer offsets), incl. transform().",
    "note": _REAL + "Layouts enumerated (2 quick, 17 thorough), not proved for all layouts. A-EIGEN-INV for element groups with numeric inverse fallback.",
    "technique": "contracts on the real Bundle templates; per-path VCs by symbolic-scalar execution; DAG/normal-form identity against the same-run element results; frame check on off-diagonal cells",
}

CLAIMED["C17"] = {
    "text": "CBMC code contracts (function contract + loop invariants + decreases on all 8 loops, callee replaced by its contract) on the C skeleton "
            "extracted mechanically from decasteljau.h: maximal window count, every index in bounds, exact window size, curve size, no unsigned wrap, "
            "termination, raises iff N<3|degree>N|k==0, last curve point = last control point; bounded (N,k) box.",
    "note": "Trusted: CBMC, the extraction rules (ghost counters for containers), lemma blend(X,Y,1)=Y. Bounded domain N<=24,k<=3 (quick) / N<=64,k<=4 (thorough); "
            "n_segments contract N<=256 / 2048. Element values not modelled.",
    "technique": "CBMC code contracts with loop contracts (goto-instrument --dfcc --enforce-contract --replace-call-with-contract --apply-loop-contracts) on a rule-extracted C skeleton",
    "engine": "E3",
}

CLAIMED["C04"] = {
    "text": "For every group: the canonical members, the documented compositions of primitives and every alias (members, operators, tangent-side forms, "
            "free functions) are the same computation for all inputs (identical hash-consed expression DAG in one execution, values and Jacobians); each free "
            "function of functions.h instantiates (own translation unit); (X+t)-X = t and X+(Y-X) = Y by normal form for SO2, SE2, SO3, Rn.",
    "note": "Trusted: tracer hash-consing, g++ instantiation over vs::Sym; REAL + A-TRIG/A-ATAN2 for the round trips. Round trips for the larger groups are a "
            "consequence of C01+C03 (lemma). Views: C10.",
    "technique": "contracts on the generic CRTP layer instantiated per group; same-execution DAG identity against the documented compositions; polynomial normal form for the round trips; per-function instantiation units",
}

CLAIMED["C15"] = {
    "text": "Per group: SLERP is the same computation as A.rplus(B.rminus(A)*t) (DAG identity, all groups); end points at t=0 for all methods and all groups, "
            "at t=1 and left equivariance for SO2, SE2, Rn by normal form; a parameter outside [0,1] raises on every path and nothing inside is rejected (z3); "
            "smoothing_phi: phi(0)=0, phi(1)=1, phi' = c t^m (1-t)^m, c>0 (exact); unsupported degrees raise for every size_t (CBMC contract on the extracted dispatch).",
    "note": _REAL + "CUBIC end points are a recorded known finding. t=1 end points for quaternion groups: lemma from C01+C03. Auto-valid tracing assumptions are each proved by normal form.",
    "technique": "contracts on interpolation.h instantiated per group; DAG identity; polynomial normal form; z3 on path conditions; CBMC code contract for the degree dispatch",
    "engine": "E1+E3",
}

CLAIMED["C18"] = {
    "text": "Proof over the reals that the tangent comparison IS the documented relation (absolute test against zero below eps, relative test otherwise) on every "
            "path (z3 on path conditions), is symmetric and reflexive; the group comparison is the same computation as the tangent test of Y(-)X against zero; "
            "X.rminus(X) is exactly zero for every valid X incl. the antipodal coefficient vector (normal form), so X.isApprox(X) and X==X hold.",
    "note": _REAL + "Not decided: X==X at huge coordinates (rounding). rminus(X,X)=0 discharged for SO2, SE2, SO3, Rn (SE3 thorough).",
    "technique": "contracts on LieGroupBase/TangentBase::isApprox; per-path VCs by symbolic-scalar execution; z3 (QF_NRA) on path conditions; polynomial normal form",
}

CLAIMED["C09"] = {
    "text": "For every group and operation: all subsets of optional outputs give the identical value expression and identical Jacobian expressions; arguments keep "
            "their cells; an output bound to a block of a larger matrix writes exactly that block; a repeated call after unrelated activity (statics, other "
            "elements) and self-assigned results are the identical expression - decided as same-execution DAG identities over hash-consed expressions, i.e. for all inputs.",
    "note": "Trusted: tracer hash-consing; A-RAND; auto-valid tracing. Scalar-cell granularity (no byte-level effects).",
    "technique": "frame conditions on the traces of the real templates: same-execution expression-DAG identity and sentinel cells",
}

CLAIMED["C10"] = {
    "text": "For every group, Map and Map<const> views at cell offsets 0 and 1 over sentinel-guarded buffers: every operation returns the same expression as on "
            "owning objects (also mixed operand kinds); no result or branch depends on a sentinel; every mutator writes exactly the viewed cells with the owning "
            "computation's result and leaves sentinels and the other operand's buffer untouched; copies/moves/cross-kind assignments preserve coefficients - "
            "decided as same-execution DAG identities, i.e. for all inputs.",
    "note": "Trusted: tracer hash-consing, sentinel cells. Granularity one scalar cell: discarded reads, byte-level overruns, alignment are NOT decided.",
    "technique": "frame conditions on traces of the real Map specialisations: sentinel cells + same-execution expression-DAG identity",
}

CLAIMED["C08"] = {
    "text": "Proof over the reals of a representation invariant | ||rot||^2-1 | <= eps preserved by every element-returning primitive (exp, compose, inverse, "
            "between, rplus/+=, *=, cast, Random, Identity) from inputs that satisfy only the invariant, and that no assertion can fire (assertions compiled in): "
            "per path, Groebner elimination reduces the result's squared norm to a polynomial in the inputs' squared norms, z3 proves the bound and the "
            "infeasibility of throwing paths. History-length independent by induction over operations.",
    "note": _REAL + "Assumed: per-operation rounding perturbation of the squared norm below eps/4. Interpolation/averaging/Bundles return elements only through these primitives (C11 for bundles).",
    "technique": "representation invariant as pre/postcondition of each primitive; per-path VCs by symbolic-scalar execution; Groebner elimination + z3 (QF_NRA)",
}

CLAIMED["C16"] = {
    "text": "Partial, bounded (N<=3 points, <=2 iterations; SO2, SE2, SO3, R3): each of the four averaging routines instantiates (own translation unit), raises on an "
            "empty set, returns the single / the identical point (only the first-test exit path is feasible: normal form + z3), returns a valid element, and the "
            "one-step iterate of the bi-invariant and weighted means is left-equivariant (SO2, R3).",
    "note": _REAL + "NOT decided: convergence within the iteration budget, order independence, equivariance of the Frechet variants (fixed-point statements). Bounded in N and iterations.",
    "technique": "contracts on average.h instantiated per group and routine; per-path VCs by symbolic-scalar execution (bounded container size / iterations); normal form + z3",
}

CLAIMED["C12"] = {
    "text": "Instantiated over forward-mode dual numbers (vs::Jet over the symbolic scalar): the primal part of every operation is the same expression as the "
            "plain-scalar run, and d/dd [f(X(+)d)(-)f(X)] at d=0 read off the dual parts equals the analytic Jacobian of inverse, log, exp, compose, act "
            "(+ rplus/rminus for the small groups) by normal form; the ceres manifold / local-parameterisation functors compute X(+)d and Y(-)X through raw pointers.",
    "note": _REAL + "vs::Jet is a stand-in for ceres::Jet (ceres not installed). NOT decided: float-vs-double accuracy; objective/constraint functors (need ceres cost-function types).",
    "technique": "contracts on the real templates instantiated over a dual-number scalar; same-execution DAG identity for primal parts; polynomial normal form for dual parts vs analytic Jacobians",
}

NOT_APPLICABLE = {
    "C14": "quantifies over thread schedules; contract verification of one sequential call cannot express or decide data-race freedom (no thread model in any installed deductive back end for this C++ code) - see DESIGN.md section 5",
    "C19": "the oracle is the compiler's accept/reject verdict over a matrix of client programs, not a pre/postcondition of any function - see DESIGN.md section 5",
}
for _p in ["C02", "C03", "C04", "C05", "C06", "C07", "C08", "C09", "C10", "C11", "C12", "C13", "C15", "C16", "C17", "C18"]:
    if _p not in CLAIMED:
        NOT_APPLICABLE[_p] = "check not built yet in this revision (planned, see DESIGN.md section 4)"


def prebuild():
    import importlib
    from engine import build
    targets = []
    for pid in CLAIMED:
        mod = importlib.import_module("contracts." + pid.lower())
        if hasattr(mod, "prebuild_targets"):
            targets += mod.prebuild_targets("quick")
    seen, uniq = set(), []
    for t in targets:
        if t.path not in seen:
            seen.add(t.path)
            uniq.append(t)
    res = build.build_all(uniq)
    bad = [k for k, v in res.items() if isinstance(v, Exception)]
    print("prebuilt %d harness binaries (%d failed to compile: %s)" % (len(uniq) - len(bad), len(bad), bad))
