"""C07  Lie-algebra structure: hat, vee, generators, bracket, inner product (exact, over QQ).

Contracts:
  TangentBase::Generator(i)  ensures  == documented basis matrix E_i (spec.basis(i)) for 0 <= i < DoF;
                                      any other index raises manif::invalid_argument
  <G>TangentBase::hat        ensures  t.hat() == sum_i t_i E_i  (hence linear)
  TangentBase::Vee           ensures  Vee(t.hat()) == t  and  Vee(sum_i t_i Generator(i)) == t
  TangentBase::Bracket       ensures  hat(Bracket(a,b)) == hat(a) hat(b) - hat(b) hat(a)
                                      (bilinearity / antisymmetry / Jacobi then hold because they hold for the matrix commutator)
  TangentBase::inner         ensures  a.inner(b) == trace(hat(a)^T hat(b)) == a^T W b,  W == InnerWeights()
  InnerWeights               ensures  symmetric, all leading principal minors > 0 (exact rationals)
  weightedNorm               ensures  squaredWeightedNorm == inner(t,t), weightedNorm^2 == squaredWeightedNorm
The index domain for ALL 2^32 values of i is covered by the CBMC code contract on the
extracted switch of every GeneratorEvaluator::run (cbmc/generator_index.py).
"""
from fractions import Fraction

import numpy as np

from . import common as C
from .common import ctx_for

HARNESS = C.Harness("h_alg.cpp", assertions=True)
BRACKET = C.Harness("h_bracket.cpp", assertions=True)


def prebuild_targets(tier):
    return HARNESS.targets(C.groups_for(tier)) + BRACKET.targets(C.groups_for(tier))


def run(rep, tier, seed):
    groups = C.groups_for(tier)
    errs = HARNESS.build(groups)
    berrs = BRACKET.build(groups)
    rep.trust("exact rational arithmetic (no atoms): identities are polynomial identities over QQ",
              "g++ template instantiation over vs::Sym; tracer vsym/sym.h; sympy ring arithmetic",
              "CBMC 6.11 (goto-cc, goto-instrument --dfcc) for the index-domain contract; cbmc/extract_generator.py rewrite rules")
    for g in groups:
        if g in errs:
            rep.fail("C07/%s/instantiates" % g, "BUILD", "g++", {"compiler_output": errs[g].output[-3000:]},
                     {"failing_input_reproduced": False})
            continue
        check_group(rep, g, seed)
        if g in berrs:
            lines = [l for l in berrs[g].output.splitlines() if "error" in l][:6]
            rep.fail("C07/%s/Bracket/instantiates" % g, "BUILD", "g++",
                     {"compiler_output": "\n".join(lines),
                      "note": "Bracket()/smallAdj() cannot be instantiated for a non-double scalar"},
                     {"failing_input_reproduced": True, "demonstration": "instantiate %s::Tangent::Bracket over float / a dual number" % g})
        else:
            check_bracket(rep, g, seed)
    from cbmc import generator_index
    generator_index.run(rep, tier)


def _paths(rep, harness, g, scn, decl, seed, label):
    out = []
    for path in harness.paths(g, scn):
        c = ctx_for(rep, "C07/%s/%s[%s]" % (g, label, path.script), path, g, decl,
                    native=harness.native(g, scn), seed=seed)
        if c.feasible() == "no":
            continue
        out.append(c)
    if not out:
        rep.undecide("C07/%s/%s/feasible_paths" % (g, label), "FEAS", "z3", "no feasible path (vacuity guard)")
    return out


def check_group(rep, g, seed):
    fam = C.family(g)
    tf = C.tangent_base_file(g)
    C.check_anchor(rep, "GeneratorEvaluator<%sTangentBase>::run" % fam, tf, r"GeneratorEvaluator")
    C.check_anchor(rep, "%sTangentBase::hat" % fam, tf)
    C.check_anchor(rep, "VeeEvaluatorImpl<%sTangentBase>::run" % fam, tf, r"VeeEvaluatorImpl")
    C.check_anchor(rep, "TangentBase::inner", "include/manif/impl/tangent_base.h")
    C.check_anchor(rep, "InnerWeightsEvaluator::run", "include/manif/impl/generator.h", r"InnerWeightsEvaluator")
    HARNESS.prefetch(g, ["generators", "generator_oob_hi", "generator_oob_lo", "generator_member", "hat", "vee_hat",
                         "vee_generic", "innerweights", "inner"])

    # ---- generators
    for c in _paths(rep, HARNESS, g, "generators", [], seed, "Generator"):
        if c.path.thrown:
            c.must_not_throw()
            continue
        sp = c.spec
        if c.path.ints.get("dof") != sp.dof:
            rep.fail("C07/%s/Generator/dof" % g, "ID", "dag", {"dof": c.path.ints.get("dof"), "spec": sp.dof},
                     {"failing_input_reproduced": True})
        for i in range(sp.dof):
            c.eq("G%d_is_documented_basis" % i, c.out("G%d" % i), sp.basis(i))
    for scn in ("generator_oob_hi", "generator_oob_lo"):
        for path in HARNESS.paths(g, scn):
            nm = "C07/%s/%s/raises_invalid_argument" % (g, scn)
            if path.thrown and "invalid_argument" in path.thrown:
                rep.ok(nm, "SAFE", "trace", detail={"thrown": path.thrown})
            else:
                rep.fail(nm, "SAFE", "trace", {"thrown": path.thrown, "expected": "manif::invalid_argument"},
                         {"failing_input_reproduced": True, "scenario": scn,
                          "input": {"i": "DoF" if scn.endswith("hi") else "-1"}})
    for c in _paths(rep, HARNESS, g, "generator_member", [("t", "T")], seed, "generator"):
        if c.path.thrown:
            c.must_not_throw()
            continue
        c.eq("member_G0", c.out("G0"), c.spec.basis(0))
        c.eq("member_Glast", c.out("GL"), c.spec.basis(c.spec.dof - 1))

    # ---- hat / vee
    for c in _paths(rep, HARNESS, g, "hat", [("t", "T")], seed, "hat"):
        c.eq("hat_is_sum_ti_Ei", c.out("out"), c.spec.hat(c.E["t"]))
    for scn in ("vee_hat", "vee_generic"):
        for c in _paths(rep, HARNESS, g, scn, [("t", "T")], seed, scn):
            if c.path.thrown:
                c.must_not_throw()
                continue
            c.eq("vee_inverts_hat", c.vec("out"), c.E["t"])

    # ---- inner product
    W = None
    for c in _paths(rep, HARNESS, g, "innerweights", [("t", "T")], seed, "InnerWeights"):
        sp = c.spec
        n = sp.dof
        Wm = c.out("W")
        # Frobenius Gram matrix of the documented basis
        gram = np.empty((n, n), dtype=object)
        for i in range(n):
            for j in range(n):
                Ei, Ej = sp.basis(i), sp.basis(j)
                gram[i, j] = sum((Ei[r, s] * Ej[r, s] for r in range(sp.asize) for s in range(sp.asize)), c.alg.R.zero)
        c.eq("W_is_Frobenius_Gram_matrix", Wm, gram)
        c.eq("member_equals_static", c.out("Wm"), Wm)
        c.eq("W_symmetric", Wm, Wm.T)
        # positive definiteness: leading principal minors, exact
        try:
            import sympy
            Wq = sympy.Matrix(n, n, lambda i, j: sympy.Rational(str(c.alg.const_value(Wm[i, j]))))
            ok = all(Wq[:k, :k].det() > 0 for k in range(1, n + 1))
            if ok:
                rep.ok("C07/%s/InnerWeights/positive_definite" % g, "INEQ", "exact-rational")
            else:
                rep.fail("C07/%s/InnerWeights/positive_definite" % g, "INEQ", "exact-rational",
                         {"W": str(Wq)}, {"failing_input_reproduced": True})
        except Exception as e:   # non-constant W: cannot happen for a correct library
            rep.fail("C07/%s/InnerWeights/constant" % g, "ID", "dag", {"error": str(e)}, {"failing_input_reproduced": False})
    for c in _paths(rep, HARNESS, g, "inner", [("a", "T"), ("b", "T")], seed, "inner"):
        sp = c.spec
        Ha, Hb = sp.hat(c.E["a"]), sp.hat(c.E["b"])
        frob = sum((Ha[r, s] * Hb[r, s] for r in range(sp.asize) for s in range(sp.asize)), c.alg.R.zero)
        froa = sum((Ha[r, s] * Ha[r, s] for r in range(sp.asize) for s in range(sp.asize)), c.alg.R.zero)
        c.eq("inner_is_Frobenius", c.out("inner"), np.array([[frob]], dtype=object))
        c.eq("squaredWeightedNorm_is_inner_t_t", c.out("sqwnorm"), np.array([[froa]], dtype=object))
        wn = c.out("wnorm")[0, 0]
        c.eq("weightedNorm_squared", np.array([[wn * wn]], dtype=object), np.array([[froa]], dtype=object))


def check_bracket(rep, g, seed):
    BRACKET.prefetch(g, ["bracket"])
    C.check_anchor(rep, "BracketEvaluatorImpl::run", "include/manif/impl/bracket.h", r"BracketEvaluatorImpl")
    for c in _paths(rep, BRACKET, g, "bracket", [("a", "T"), ("b", "T")], seed, "Bracket"):
        if c.path.thrown:
            c.must_not_throw()
            continue
        sp = c.spec
        Ha, Hb = sp.hat(c.E["a"]), sp.hat(c.E["b"])
        comm = np.dot(Ha, Hb) - np.dot(Hb, Ha)
        c.eq("hat_of_bracket_is_commutator", sp.hat(c.vec("out")), comm)
        c.eq("member_form_agrees", c.vec("member"), c.vec("out"))
