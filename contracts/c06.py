"""C06  rjac / ljac / their inverses / Adj / adj / smallAdj satisfy their defining identities.

Contracts (t a tangent, X = exp(t) computed by the real code, s a basis tangent):
  <G>TangentBase::rjac   ensures  D T(exp t)[e_k] == T(exp t) * hat(rjac e_k)     (right-trivialised differential of exp;
                                   with L-SERIES this is  rjac == sum_k (-ad_t)^k/(k+1)!)
  <G>TangentBase::ljac   ensures  D T(exp t)[e_k] == hat(ljac e_k) * T(exp t)   and   ljac(t) == rjac(-t)
  rjacinv / ljacinv      ensures  rjac*rjacinv == I == ljac*ljacinv            (closed forms: ID; LU fallback: A-EIGEN-INV contract)
  <G>Base::adj           ensures  T(X) * hat(e_k) == hat(adj e_k) * T(X)        (adj(X) s is the vector of X hat(s) X^-1)
                                  Adj(exp t) * rjac == ljac                      (Adj(exp t) = ljac * rjacinv)
                                  Adj(X*Y) == Adj(X)*Adj(Y),  Adj(X^-1)*Adj(X) == I
  <G>TangentBase::smallAdj ensures hat(smallAdj(t) e_k) == hat(t) hat(e_k) - hat(e_k) hat(t)
Small-angle paths: residual bounded by TAU*scale (TAYLOR), see contracts/taylor.py.
"""
import numpy as np

from engine import build
from . import common as C
from .common import ctx_for
from . import taylor
from engine import fpcheck

HARNESS = C.Harness("h_tan.cpp", assertions=True, extra_defines=["VS_STUB_LARGE_INVERSE"])
BRACKET = C.Harness("h_bracket.cpp", assertions=True)

TAU = 1e-6


def prebuild_targets(tier):
    return HARNESS.targets(C.groups_for(tier, bundles=False)) + BRACKET.targets(C.groups_for(tier, bundles=False))


def _eye(alg, n):
    return np.array([[alg.R.one if i == j else alg.R.zero for j in range(n)] for i in range(n)], dtype=object)


def _feasible_paths(rep, harness, g, scn, decl, seed, label):
    out = []
    for path in harness.paths(g, scn):
        c = ctx_for(rep, "C06/%s/%s[%s]" % (g, label, path.script), path, g, decl,
                    native=harness.native(g, scn), seed=seed)
        if c.feasible() == "no" or path.thrown:
            continue
        out.append(c)
    if not out:
        rep.undecide("C06/%s/%s/feasible_paths" % (g, label), "FEAS", "z3", "no feasible non-throwing path (vacuity guard)")
    return out


def run(rep, tier, seed):
    groups = C.groups_for(tier, bundles=False)
    errs = HARNESS.build(groups)
    berrs = BRACKET.build(groups)
    rep.trust("REAL: machine arithmetic treated as mathematical",
              "A-TRIG / A-SQRT / A-ATAN2 / A-TAYLOR axioms for the libm atoms",
              "L-SERIES (textbook): sum_k (-ad_t)^k/(k+1)! is the right-trivialised differential of exp",
              "tracer vsym/sym.h; engine/alg.py (sympy rings/groebner); z3 for path feasibility")
    rep.assume("floating-point accuracy just above the small-angle switch-over is NOT decided (proofs are over the reals); "
               "e.g. SE2 rjacinv's generic-branch numerator cancels to 0 in double near theta=2e-7 although it is correct over the reals")
    rep.assume("Bundles: every Bundle operation / Jacobian is the block-diagonal of its elements' (proved per layout under C11), so the element-group results proved here carry over")
    def one(rep, g):
        if g in errs:
            rep.fail("C06/%s/instantiates" % g, "BUILD", "g++", {"compiler_output": errs[g].output[-3000:]},
                     {"failing_input_reproduced": False})
            return
        check_group(rep, g, tier, seed)
        if g in berrs:
            rep.fail("C06/%s/smallAdj/instantiates" % g, "BUILD", "g++",
                     {"compiler_output": _first_error(berrs[g].output),
                      "note": "TangentBase::smallAdj cannot be instantiated for a non-double scalar"},
                     {"failing_input_reproduced": True,
                      "demonstration": "g++ -std=c++11 -I/repo/include -I/repo/external/tl -I/usr/include/eigen3 "
                                       "-x c++ - <<< '#include <manif/manif.h>\\nint main(){ typename %s::Tangent t; t.setZero(); return (int)t.smallAdj()(0,0); }' with Scalar=float"
                                       % g})
        else:
            check_smalladj(rep, g, seed)
    rep.parallel(groups, one)


def _first_error(out):
    lines = [l for l in out.splitlines() if "error" in l]
    return "\n".join(lines[:6])


def check_group(rep, g, tier, seed):
    fam = C.family(g)
    bf, tf = C.base_file(g), C.tangent_base_file(g)
    for fn in ("rjac", "ljac"):
        C.check_anchor(rep, "%sTangentBase::%s" % (fam, fn), tf)
    C.check_anchor(rep, "%sBase::adj" % fam, bf)
    C.check_anchor(rep, "TangentBase::rjacinv", "include/manif/impl/tangent_base.h")
    heavy = fam in ("SE_2_3", "SGal3") or (fam == "Bundle" and ("SE_2_3" in g or "SGal3" in g))
    HARNESS.prefetch(g, ["tan_jacs", "tan_inv", "tan_adj", "adj", "adj_compose"])

    # ---- rjac / ljac are the right / left trivialised differentials of exp;  ljac(t) == rjac(-t)
    for c in _feasible_paths(rep, HARNESS, g, "tan_jacs", [("t", "T")], seed, "jacs"):
        rep.progress("%s jacs[%s]" % (g, c.path.script))
        sp = c.spec
        X = c.vec("X")

        def obl(c=c, sp=sp, X=X):
            TX = sp.T(X)
            Jr, Jl = c.out("rjac"), c.out("ljac")
            for k, direction in c.directions("t"):
                d = c.D(direction, TX)
                c.eq("rjac_is_right_differential_of_exp/dt%d" % k, d, np.dot(TX, sp.hat_h(list(Jr[:, k]))), "DERIV")
                c.eq("ljac_is_left_differential_of_exp/dt%d" % k, d, np.dot(sp.hat_h(list(Jl[:, k])), TX), "DERIV")
            c.eq("ljac_is_rjac_of_minus_t", Jl, c.out("rjac_neg"))
        taylor.with_taylor(c, TAU, obl)
        fpcheck.compare(rep, c, ["rjac", "ljac"], TAU, "jacs")

    # ---- inverses
    for c in _feasible_paths(rep, HARNESS, g, "tan_inv", [("t", "T")], seed, "inv"):
        rep.progress("%s inv[%s]" % (g, c.path.script))
        n = c.spec.dof
        for (nm, inv) in (("rjac", "rjacinv"), ("ljac", "ljacinv")):
            M = c.inverse_stub_of(inv)
            if M is not None:
                # LU fallback: M*X == I is the stub's contract (A-EIGEN-INV); check it was applied to the right matrix
                rep.trust("A-EIGEN-INV: for N>4 Eigen's M.inverse() returns X with M*X = I (det M != 0)")
                c.eq("%s_fallback_inverts_%s" % (inv, nm), M, c.out(nm))
            else:
                taylor.with_taylor(c, TAU, lambda c=c, nm=nm, inv=inv, n=n: (
                    c.eq("%s_times_%s" % (nm, inv), np.dot(c.out(nm), c.out(inv)), _eye(c.alg, n)),
                    c.eq("%s_times_%s" % (inv, nm), np.dot(c.out(inv), c.out(nm)), _eye(c.alg, n))))

        fpcheck.compare(rep, c, ["rjac", "ljac", "rjacinv", "ljacinv"], TAU, "inverses")

    # ---- Adj(exp t) * rjac == ljac
    for c in _feasible_paths(rep, HARNESS, g, "tan_adj", [("t", "T")], seed, "adj_exp"):
        rep.progress("%s adj_exp[%s]" % (g, c.path.script))
        taylor.with_taylor(c, TAU, lambda c=c: c.eq("Adj_exp_times_rjac_is_ljac",
                                                    np.dot(c.out("AdjX"), c.out("rjac")), c.out("ljac")))

    # ---- adj(X) s is the vector of X hat(s) X^-1
    for c in _feasible_paths(rep, HARNESS, g, "adj", [("x", "G")], seed, "adj"):
        sp = c.spec
        TX = sp.T(c.E["x"])
        A = c.out("adj")
        for k in range(sp.dof):
            c.eq("adj_is_conjugation/e%d" % k, np.dot(TX, sp.basis_h(k)), np.dot(sp.hat_h(list(A[:, k])), TX))

    # ---- homomorphism
    for c in _feasible_paths(rep, HARNESS, g, "adj_compose", [("x", "G"), ("y", "G")], seed, "adj_compose"):
        n = c.spec.dof
        c.eq("Adj_XY_is_AdjX_AdjY", c.out("AdjXY"), np.dot(c.out("AdjX"), c.out("AdjY")))
        c.eq("Adj_Xinv_is_inverse", np.dot(c.out("AdjXinv"), c.out("AdjX")), _eye(c.alg, n))


def check_smalladj(rep, g, seed):
    fam = C.family(g)
    C.check_anchor(rep, "%sTangentBase::smallAdj" % fam, C.tangent_base_file(g))
    BRACKET.prefetch(g, ["smallAdj"])
    for path in BRACKET.paths(g, "smallAdj"):
        c = ctx_for(rep, "C06/%s/smallAdj[%s]" % (g, path.script), path, g, [("t", "T")],
                    native=BRACKET.native(g, "smallAdj"), seed=seed)
        if c.feasible() == "no" or path.thrown:
            continue
        sp = c.spec
        H = sp.hat(c.E["t"])
        ad = c.out("out")
        for k in range(sp.dof):
            Ek = sp.basis(k)
            c.eq("smallAdj_is_commutator/e%d" % k, sp.hat(list(ad[:, k])), np.dot(H, Ek) - np.dot(Ek, H))
