// Scenario harness: declares symbolic inputs, calls the real manif function,
// dumps (inputs, path condition, outputs) per feasible-by-script path.
// Every path runs in a fresh forked child so function-local statics of the
// code under verification cannot freeze a decision of an earlier path.
#ifndef VS_HARNESS_H
#define VS_HARNESS_H

#ifdef VS_NATIVE
// native replay mode: the same scenario source, Scalar = double, variables read
// from a file "name value" per line (argv[2]); outputs printed numerically.
#include <cmath>
#include <cstdio>
#include <cstdlib>
#include <map>
#include <fstream>
#include <manif/manif.h>
namespace vs {
typedef double Sym;
inline std::map<std::string, double>& native_vars() { static std::map<std::string, double> m; return m; }
inline double mk_var(const std::string& n) {
  auto it = native_vars().find(n);
  if (it == native_vars().end()) { std::fprintf(stderr, "native: no value for %s\n", n.c_str()); std::exit(64); }
  return it->second;
}
inline double mk_poison(const std::string&) { return 7.77e77; }
inline int id_of(double) { return 0; }
}
#else
#include "manif_sym.h"
namespace vs {
inline Sym mk_var(const std::string& n) { return Sym::var(n); }
inline Sym mk_poison(const std::string& n) { return Sym::poison(n); }
}
#endif

#include <exception>
#include <functional>
#include <iostream>
#include <sstream>
#include <string>
#include <typeinfo>
#include <vector>
#include <unistd.h>
#include <sys/wait.h>
#include <cxxabi.h>

namespace vs {

#ifdef VS_NATIVE
struct OutRec { std::string name; int rows, cols; std::vector<double> ids; };
#define VS_ID(s) (s)
#else
struct OutRec { std::string name; int rows, cols; std::vector<int> ids; };
#define VS_ID(s) ((s).id)
#endif
struct Recorder {
  std::vector<OutRec> outs;
  std::vector<std::pair<std::string, long>> ints;
  std::string thrown;
};
inline Recorder& rec() { static Recorder r; return r; }

template <typename D>
void out(const std::string& name, const Eigen::MatrixBase<D>& m) {
  OutRec o; o.name = name; o.rows = (int)m.rows(); o.cols = (int)m.cols();
  for (int c = 0; c < m.cols(); ++c)
    for (int r = 0; r < m.rows(); ++r) { Sym s = m(r, c); o.ids.push_back(VS_ID(s)); }
  rec().outs.push_back(o);
}
inline void out(const std::string& name, const Sym& s) {
  OutRec o; o.name = name; o.rows = 1; o.cols = 1; o.ids.push_back(VS_ID(s));
  rec().outs.push_back(o);
}
inline void out_buf(const std::string& name, const Sym* p, int n) {
  OutRec o; o.name = name; o.rows = n; o.cols = 1;
  for (int i = 0; i < n; ++i) o.ids.push_back(VS_ID(p[i]));
  rec().outs.push_back(o);
}
inline void out_int(const std::string& name, long v) { rec().ints.push_back({name, v}); }

// symbolic vector / matrix with variables  <prefix><i>  resp. <prefix>_r_c
template <int N> Eigen::Matrix<Sym, N, 1> sym_vec(const std::string& prefix) {
  Eigen::Matrix<Sym, N, 1> v;
  for (int i = 0; i < N; ++i) v(i) = mk_var(prefix + std::to_string(i));
  return v;
}
template <int R, int C> Eigen::Matrix<Sym, R, C> sym_mat(const std::string& prefix) {
  Eigen::Matrix<Sym, R, C> m;
  for (int c = 0; c < C; ++c) for (int r = 0; r < R; ++r)
    m(r, c) = mk_var(prefix + "_" + std::to_string(r) + "_" + std::to_string(c));
  return m;
}
template <int R, int C> Eigen::Matrix<Sym, R, C> poison_mat(const std::string& prefix) {
  Eigen::Matrix<Sym, R, C> m;
  for (int c = 0; c < C; ++c) for (int r = 0; r < R; ++r)
    m(r, c) = mk_poison(prefix + "_" + std::to_string(r) + "_" + std::to_string(c));
  return m;
}
// symbolic group element / tangent: coefficients are free variables; validity
// of the element is a *precondition of the contract*, not a run-time check
// (coeffs() assignment bypasses the constructor assertion on purpose).
template <typename G> G sym_group(const std::string& prefix) {
  G g;
  for (int i = 0; i < G::RepSize; ++i) g.coeffs()(i) = mk_var(prefix + std::to_string(i));
  return g;
}
template <typename T> T sym_tangent(const std::string& prefix) {
  T t;
  for (int i = 0; i < T::DoF; ++i) t.coeffs()(i) = mk_var(prefix + std::to_string(i));
  return t;
}

struct Scenario { std::string name; std::function<void()> fn; };
inline std::vector<Scenario>& scenarios() { static std::vector<Scenario> s; return s; }
struct ScenarioReg {
  ScenarioReg(const std::string& n, std::function<void()> f) { scenarios().push_back({n, f}); }
};
#define VS_CAT_(a, b) a##b
#define VS_CAT(a, b) VS_CAT_(a, b)
#define SCENARIO_(NAME, N) \
  static void VS_CAT(vs_scn_, N)(); \
  static vs::ScenarioReg VS_CAT(vs_reg_, N)(NAME, VS_CAT(vs_scn_, N)); \
  static void VS_CAT(vs_scn_, N)()
#define SCENARIO(NAME) SCENARIO_(NAME, __COUNTER__)

inline std::string demangle(const char* n) {
  int st = 0; char* d = abi::__cxa_demangle(n, 0, 0, &st);
  std::string s = (st == 0 && d) ? d : n; std::free(d); return s;
}

#ifdef VS_NATIVE
inline int harness_main(int argc, char** argv) {
  if (argc < 2 || std::string(argv[1]) == "--list") {
    for (auto& s : scenarios()) std::cout << s.name << "\n";
    return 0;
  }
  std::string want = argv[1];
  if (argc > 2) {
    std::ifstream in(argv[2]); std::string n; double v;
    while (in >> n >> v) native_vars()[n] = v;
  }
  const Scenario* sc = nullptr;
  for (auto& s : scenarios()) if (s.name == want) sc = &s;
  if (!sc) { std::cerr << "no such scenario: " << want << "\n"; return 64; }
  try { sc->fn(); }
  catch (const std::exception& e) { rec().thrown = demangle(typeid(e).name()) + " | " + e.what(); }
  catch (...) { rec().thrown = "unknown"; }
  std::printf("PATH %s native\n", want.c_str());
  for (auto& o : rec().outs) {
    std::printf("o %s %d %d", o.name.c_str(), o.rows, o.cols);
    for (double v : o.ids) std::printf(" %.17g", v);
    std::printf("\n");
  }
  for (auto& kv : rec().ints) std::printf("k %s %ld\n", kv.first.c_str(), kv.second);
  if (!rec().thrown.empty()) std::printf("x %s\n", rec().thrown.c_str());
  std::printf("END\n");
  return 0;
}
#else
inline void dump_path(std::ostream& os, const std::string& scn, const std::vector<int>& script) {
  Ctx& c = ctx();
  // mark reachable nodes
  std::vector<char> mark(c.nodes.size(), 0);
  std::vector<int> stack;
  auto push = [&](int id) { if (id >= 0 && !mark[id]) { mark[id] = 1; stack.push_back(id); } };
  for (auto& o : rec().outs) for (int id : o.ids) push(id);
  for (auto& d : c.taken) { push(d.a); push(d.b); }
  for (auto& r : rand_records()) { push(r.var); push(r.lo); push(r.hi); }
#ifdef VS_STUB_LARGE_INVERSE
  for (auto& r : inv_records()) { for (int id : r.m) push(id); for (int id : r.x) push(id); }
#endif
  while (!stack.empty()) {
    int id = stack.back(); stack.pop_back();
    push(c.nodes[id].a); push(c.nodes[id].b);
  }
  os << "PATH " << scn << " ";
  if (script.empty()) os << "-"; for (int b : script) os << b;
  os << "\n";
  char buf[64];
  for (size_t i = 0; i < c.nodes.size(); ++i) {
    if (!mark[i]) continue;
    const Node& n = c.nodes[i];
    os << "n " << i << " " << op_names[n.op];
    if (n.op == OP_CONST) { os << " " << n.q.n << "/" << n.q.d; }
    else if (n.op == OP_CONSTD) { std::snprintf(buf, sizeof buf, "%a", n.val); os << " " << buf; }
    else if (n.op == OP_VAR || n.op == OP_POISON) os << " " << n.name;
    else { os << " " << n.a; if (n.b >= 0) os << " " << n.b; }
    os << "\n";
  }
  for (auto& d : c.taken)
    os << "d " << (d.rel == REL_LT ? "lt" : "eq") << " " << d.a << " " << d.b << " "
       << (d.val ? 1 : 0) << " " << d.is_const << "\n";
  for (auto& r : rand_records()) os << "r " << r.var << " " << r.lo << " " << r.hi << "\n";
#ifdef VS_STUB_LARGE_INVERSE
  for (auto& r : inv_records()) {
    os << "i " << r.n;
    for (int id : r.m) os << " " << id;
    for (int id : r.x) os << " " << id;
    os << "\n";
  }
#endif
  for (auto& o : rec().outs) {
    os << "o " << o.name << " " << o.rows << " " << o.cols;
    for (int id : o.ids) os << " " << id;
    os << "\n";
  }
  for (auto& kv : rec().ints) os << "k " << kv.first << " " << kv.second << "\n";
  if (!rec().thrown.empty()) os << "x " << rec().thrown << "\n";
  os << "END\n";
}

// run one path in this process; returns the non-constant decisions taken
inline std::vector<int> run_one(const Scenario& s, const std::vector<int>& script, std::ostream& os) {
  ctx().script = script; ctx().pos = 0;
  try { s.fn(); }
  catch (const std::exception& e) { rec().thrown = demangle(typeid(e).name()) + " | " + e.what(); }
  catch (...) { rec().thrown = "unknown"; }
  dump_path(os, s.name, script);
  std::vector<int> dec;
  for (auto& d : ctx().taken) if (!d.is_const) dec.push_back(d.val ? 1 : 0);
  return dec;
}

inline int harness_main(int argc, char** argv) {
  if (argc < 2 || std::string(argv[1]) == "--list") {
    for (auto& s : scenarios()) std::cout << s.name << "\n";
    return 0;
  }
  long max_paths = 20000;
  if (const char* e = std::getenv("VS_MAX_PATHS")) max_paths = std::atol(e);
  if (const char* e = std::getenv("VS_AUTO_VALID")) ctx().auto_valid = (std::atoi(e) != 0);
  for (int ai = 1; ai < argc; ++ai) {
    std::string want = argv[ai];
    const Scenario* sc = nullptr;
    for (auto& s : scenarios()) if (s.name == want) sc = &s;
    if (!sc) { std::cerr << "no such scenario: " << want << "\n"; return 64; }
    std::vector<std::vector<int>> work; work.push_back({});
    long npaths = 0;
    while (!work.empty()) {
      std::vector<int> script = work.back(); work.pop_back();
      if (++npaths > max_paths) { std::cerr << "too many paths in " << want << "\n"; return 65; }
      int pfd[2]; if (pipe(pfd)) return 66;
      std::cout.flush();
      pid_t pid = fork();
      if (pid == 0) {
        close(pfd[0]);
        std::ostringstream os;
        std::vector<int> dec = run_one(*sc, script, os);
        std::string s = os.str();
        size_t off = 0;
        while (off < s.size()) { ssize_t w = write(1, s.data() + off, s.size() - off); if (w <= 0) _exit(67); off += w; }
        std::string ds; for (int b : dec) ds.push_back(b ? '1' : '0');
        if (!ds.empty() && write(pfd[1], ds.data(), ds.size()) < 0) _exit(67);
        close(pfd[1]);
        _exit(0);
      }
      close(pfd[1]);
      std::string ds; char buf[4096]; ssize_t r;
      while ((r = read(pfd[0], buf, sizeof buf)) > 0) ds.append(buf, r);
      close(pfd[0]);
      int st = 0; waitpid(pid, &st, 0);
      if (!WIFEXITED(st) || WEXITSTATUS(st) != 0) {
        std::cerr << "path child failed in " << want << " status " << st << "\n";
        return 68;
      }
      // expand: for every decision beyond the script, queue the flipped prefix
      for (size_t i = script.size(); i < ds.size(); ++i) {
        std::vector<int> alt;
        for (size_t j = 0; j < i; ++j) alt.push_back(ds[j] == '1');
        alt.push_back(ds[i] == '1' ? 0 : 1);
        work.push_back(alt);
      }
    }
    std::cout << "DONE " << want << " " << npaths << "\n";
  }
  return 0;
}

#endif
} // namespace vs

#define VS_MAIN int main(int argc, char** argv) { return vs::harness_main(argc, argv); }

#endif
