// Interpolation scenarios (C15), per group.
#include "harness.h"

using namespace vs;
typedef GROUP G;
typedef G::Tangent T;
enum { DoF = G::DoF, Dim = G::Dim, Rep = G::RepSize };

SCENARIO("slerp_formula") {
  G A = sym_group<G>("x"), B = sym_group<G>("y"); Sym t = mk_var("s0");
  out("A", A.coeffs()); out("B", B.coeffs());
  out("out", manif::interpolate(A, B, t, manif::INTERP_METHOD::SLERP).coeffs());
  out("doc", A.rplus(B.rminus(A) * t).coeffs());     // A * exp(t * log(A^-1 B))
  out("direct", manif::interpolate_slerp(A, B, t).coeffs());
}
#define VS_ENDPOINT(NAME, METHOD, TVAL) \
  SCENARIO(NAME) { \
    G A = sym_group<G>("x"), B = sym_group<G>("y"); T ta = sym_tangent<T>("a"), tb = sym_tangent<T>("b"); \
    out("A", A.coeffs()); out("B", B.coeffs()); \
    out("out", manif::interpolate(A, B, Sym(TVAL), manif::INTERP_METHOD::METHOD, ta, tb).coeffs()); }
VS_ENDPOINT("slerp_0", SLERP, 0)
VS_ENDPOINT("slerp_1", SLERP, 1)
VS_ENDPOINT("cubic_0", CUBIC, 0)
VS_ENDPOINT("cubic_1", CUBIC, 1)
VS_ENDPOINT("smooth_0", CNSMOOTH, 0)
VS_ENDPOINT("smooth_1", CNSMOOTH, 1)

// parameter range: with symbolic t every path either throws or has 0 <= t <= 1
#define VS_RANGE(NAME, METHOD) \
  SCENARIO(NAME) { \
    G A = sym_group<G>("x"), B = sym_group<G>("y"); Sym t = mk_var("s0"); \
    G C = manif::interpolate(A, B, t, manif::INTERP_METHOD::METHOD); \
    out("t", t); out_int("returned", 1); (void)C; }
VS_RANGE("slerp_range", SLERP)
VS_RANGE("cubic_range", CUBIC)
VS_RANGE("smooth_range", CNSMOOTH)

SCENARIO("smooth_m0") {
  G A = sym_group<G>("x"), B = sym_group<G>("y");
  G C = manif::interpolate_smooth(A, B, Sym(0.5), 0);
  out("out", C.coeffs());
}

// slerp commutes with left translation of both end points
SCENARIO("slerp_left_equivariance") {
  G A = sym_group<G>("x"), B = sym_group<G>("y"), Z = sym_group<G>("z"); Sym t = mk_var("s0");
  out("lhs", manif::interpolate_slerp(Z.compose(A), Z.compose(B), t).coeffs());
  out("rhs", Z.compose(manif::interpolate_slerp(A, B, t)).coeffs());
}

// smoothing polynomial (group independent; traced once per harness)
#define VS_PHI(K) SCENARIO("phi_" #K) { Sym t = mk_var("s0"); out("t", t); out("phi", manif::smoothing_phi(t, K)); \
  out("phi0", manif::smoothing_phi(Sym(0), K)); out("phi1", manif::smoothing_phi(Sym(1), K)); }
VS_PHI(1) VS_PHI(2) VS_PHI(3) VS_PHI(4)
SCENARIO("phi_0") { out("phi", manif::smoothing_phi(mk_var("s0"), 0)); }
SCENARIO("phi_5") { out("phi", manif::smoothing_phi(mk_var("s0"), 5)); }
VS_MAIN
