// vs::Jet<N>: a forward-mode dual number over vs::Sym, written after ceres::Jet (same operator set,
// same rule that comparisons look at the primal part only).  ceres is not installed in this
// sandbox; this stand-in lets the real manif templates be instantiated "the ceres::Jet way".
#ifndef VS_JET_H
#define VS_JET_H

#include "manif_sym.h"

namespace vs {

template <int N>
struct Jet {
  typedef Eigen::Matrix<Sym, N, 1> V;
  Sym a;
  V v;
  Jet() : a(0) { for (int i = 0; i < N; ++i) v(i) = Sym(0); }
  Jet(const Sym& s) : a(s) { for (int i = 0; i < N; ++i) v(i) = Sym(0); }
  template <typename T, typename = typename std::enable_if<std::is_arithmetic<T>::value>::type>
  Jet(T s) : a(s) { for (int i = 0; i < N; ++i) v(i) = Sym(0); }
  Jet(const Sym& s, int k) : a(s) { for (int i = 0; i < N; ++i) v(i) = Sym(i == k ? 1 : 0); }
  Jet(const Sym& s, const V& d) : a(s), v(d) {}
  Jet& operator+=(const Jet& o) { *this = *this + o; return *this; }
  Jet& operator-=(const Jet& o) { *this = *this - o; return *this; }
  Jet& operator*=(const Jet& o) { *this = *this * o; return *this; }
  Jet& operator/=(const Jet& o) { *this = *this / o; return *this; }
  Jet operator-() const { return Jet(-a, V(-v)); }
  Jet operator+() const { return *this; }
};

template <int N> Jet<N> operator+(const Jet<N>& f, const Jet<N>& g) { return Jet<N>(f.a + g.a, typename Jet<N>::V(f.v + g.v)); }
template <int N> Jet<N> operator-(const Jet<N>& f, const Jet<N>& g) { return Jet<N>(f.a - g.a, typename Jet<N>::V(f.v - g.v)); }
template <int N> Jet<N> operator*(const Jet<N>& f, const Jet<N>& g) {
  return Jet<N>(f.a * g.a, typename Jet<N>::V(f.a * g.v + f.v * g.a));
}
template <int N> Jet<N> operator/(const Jet<N>& f, const Jet<N>& g) {
  // as in ceres: (f/g)' = (f' - (f/g) g') / g
  const Sym ginv = Sym(1) / g.a;
  const Sym fg = f.a * ginv;
  return Jet<N>(fg, typename Jet<N>::V((f.v - fg * g.v) * ginv));
}
#define VS_JET_MIXED(OP) \
  template <int N, typename T, typename = typename std::enable_if<std::is_arithmetic<T>::value>::type> \
  Jet<N> operator OP(const Jet<N>& f, T s) { return f OP Jet<N>(s); } \
  template <int N, typename T, typename = typename std::enable_if<std::is_arithmetic<T>::value>::type> \
  Jet<N> operator OP(T s, const Jet<N>& f) { return Jet<N>(s) OP f; } \
  template <int N> Jet<N> operator OP(const Jet<N>& f, const Sym& s) { return f OP Jet<N>(s); } \
  template <int N> Jet<N> operator OP(const Sym& s, const Jet<N>& f) { return Jet<N>(s) OP f; }
VS_JET_MIXED(+) VS_JET_MIXED(-) VS_JET_MIXED(*) VS_JET_MIXED(/)
#undef VS_JET_MIXED

#define VS_JET_CMP(OP) \
  template <int N> bool operator OP(const Jet<N>& f, const Jet<N>& g) { return f.a OP g.a; } \
  template <int N, typename T, typename = typename std::enable_if<std::is_arithmetic<T>::value>::type> \
  bool operator OP(const Jet<N>& f, T s) { return f.a OP Sym(s); } \
  template <int N, typename T, typename = typename std::enable_if<std::is_arithmetic<T>::value>::type> \
  bool operator OP(T s, const Jet<N>& f) { return Sym(s) OP f.a; }
VS_JET_CMP(<) VS_JET_CMP(>) VS_JET_CMP(<=) VS_JET_CMP(>=) VS_JET_CMP(==) VS_JET_CMP(!=)
#undef VS_JET_CMP

template <int N> Jet<N> sin(const Jet<N>& f) { return Jet<N>(sin(f.a), typename Jet<N>::V(cos(f.a) * f.v)); }
template <int N> Jet<N> cos(const Jet<N>& f) { return Jet<N>(cos(f.a), typename Jet<N>::V(-sin(f.a) * f.v)); }
template <int N> Jet<N> sqrt(const Jet<N>& f) { const Sym r = sqrt(f.a); return Jet<N>(r, typename Jet<N>::V(f.v * (Sym(1) / (Sym(2) * r)))); }
// |f|: ceres branches on the sign of the primal part; to keep the trace symbolic the primal is the ABS node
// and the dual is f' * f/|f| (the same value wherever ceres' version is differentiable)
template <int N> Jet<N> abs(const Jet<N>& f) { const Sym m = abs(f.a); return Jet<N>(m, typename Jet<N>::V(f.v * (f.a / m))); }
template <int N> Jet<N> fabs(const Jet<N>& f) { return abs(f); }
template <int N> Jet<N> atan2(const Jet<N>& g, const Jet<N>& f) {
  // ceres: atan2(g, f)' = (f g' - g f') / (f^2 + g^2)
  const Sym d = Sym(1) / (f.a * f.a + g.a * g.a);
  return Jet<N>(atan2(g.a, f.a), typename Jet<N>::V(d * (f.a * g.v - g.a * f.v)));
}
template <int N> Jet<N> acos(const Jet<N>& f) { return Jet<N>(acos(f.a), typename Jet<N>::V(f.v * (Sym(-1) / sqrt(Sym(1) - f.a * f.a)))); }
template <int N> Jet<N> abs2(const Jet<N>& f) { return f * f; }
template <int N> Jet<N> conj(const Jet<N>& f) { return f; }
template <int N> Jet<N> real(const Jet<N>& f) { return f; }
template <int N> bool isfinite(const Jet<N>&) { return true; }
template <int N> Jet<N> min(const Jet<N>& a, const Jet<N>& b) { return (b < a) ? b : a; }
template <int N> Jet<N> max(const Jet<N>& a, const Jet<N>& b) { return (a < b) ? b : a; }
template <int N> std::ostream& operator<<(std::ostream& os, const Jet<N>& f) { return os << f.a; }

} // namespace vs

namespace Eigen {
template <int N> struct NumTraits<vs::Jet<N> > : GenericNumTraits<vs::Jet<N> > {
  typedef vs::Jet<N> Real;
  typedef vs::Jet<N> NonInteger;
  typedef vs::Jet<N> Nested;
  typedef vs::Jet<N> Literal;
  enum { IsComplex = 0, IsInteger = 0, IsSigned = 1, RequireInitialization = 1, ReadCost = 1, AddCost = 3, MulCost = 3 };
  static inline Real epsilon() { return Real(std::numeric_limits<double>::epsilon()); }
  static inline Real dummy_precision() { return Real(1e-12); }
  static inline Real highest() { return Real(std::numeric_limits<double>::max()); }
  static inline Real lowest() { return Real(std::numeric_limits<double>::lowest()); }
  static inline int digits10() { return 15; }
};
template <typename BinaryOp, int N> struct ScalarBinaryOpTraits<vs::Jet<N>, vs::Sym, BinaryOp> { typedef vs::Jet<N> ReturnType; };
template <typename BinaryOp, int N> struct ScalarBinaryOpTraits<vs::Sym, vs::Jet<N>, BinaryOp> { typedef vs::Jet<N> ReturnType; };
} // namespace Eigen

namespace manif {
template <int N> struct Constants<vs::Jet<N> > {
  static const vs::Jet<N> eps;
};
template <int N> const vs::Jet<N> Constants<vs::Jet<N> >::eps = vs::Jet<N>(vs::Sym(Constants<double>::eps));
namespace internal {
template <int N> struct is_ad<vs::Jet<N> > : std::integral_constant<bool, true> {};
} // namespace internal
} // namespace manif

#endif
