// C08 extras: Random, cast, chained operations starting from elements that satisfy only the
// representation invariant | ||rot||^2 - 1 | <= eps (not exact unit norm).
#include "harness.h"
using namespace vs;
typedef GROUP G;
typedef G::Tangent T;
enum { DoF = G::DoF, Dim = G::Dim, Rep = G::RepSize };

SCENARIO("random") { G X = G::Random(); out("out", X.coeffs()); }
SCENARIO("set_random") { G X = sym_group<G>("x"); X.setRandom(); out("out", X.coeffs()); }
SCENARIO("cast") { G X = sym_group<G>("x"); G Y = X.cast<Sym>(); out("X", X.coeffs()); out("out", Y.coeffs()); }
SCENARIO("compose") { G X = sym_group<G>("x"), Y = sym_group<G>("y"); out("X", X.coeffs()); out("Y", Y.coeffs()); out("out", X.compose(Y).coeffs()); }
SCENARIO("inverse") { G X = sym_group<G>("x"); out("X", X.coeffs()); out("out", X.inverse().coeffs()); }
SCENARIO("between") { G X = sym_group<G>("x"), Y = sym_group<G>("y"); out("out", X.between(Y).coeffs()); }
SCENARIO("exp") { T t = sym_tangent<T>("t"); out("out", t.exp().coeffs()); }
SCENARIO("rplus") { G X = sym_group<G>("x"); T t = sym_tangent<T>("t"); out("out", X.rplus(t).coeffs()); }
SCENARIO("plus_assign") { G X = sym_group<G>("x"); T t = sym_tangent<T>("t"); X += t; out("out", X.coeffs()); }
SCENARIO("mul_assign") { G X = sym_group<G>("x"), Y = sym_group<G>("y"); X *= Y; out("out", X.coeffs()); }
SCENARIO("identity") { out("out", G::Identity().coeffs()); }
VS_MAIN
