// C09: optional outputs are transparent; operations are pure and deterministic.
// Everything is evaluated in one execution over hash-consed expressions: two results are the same
// function of the inputs iff their node ids coincide.
#include "harness.h"

using namespace vs;
typedef GROUP G;
typedef G::Tangent T;
typedef G::Jacobian Jac;
enum { DoF = G::DoF, Dim = G::Dim, Rep = G::RepSize };
typedef Eigen::Matrix<Sym, Dim, 1> Point;
typedef Eigen::Matrix<Sym, Dim, DoF> JacActM;
typedef Eigen::Matrix<Sym, Dim, Dim> JacActP;
#define JJ(n) Jac n = poison_mat<DoF, DoF>(#n)

// ---- every subset of the optional outputs of a binary (group, group) operation
#define VS_SUBSETS_GG(NAME, CALL, RT) \
  SCENARIO("subsets_" NAME) { \
    G X = sym_group<G>("x"), Y = sym_group<G>("y"); \
    JJ(Ja2); JJ(Jb2); JJ(Ja1); JJ(Jb1); \
    RT r2 = X.CALL(Y, Ja2, Jb2); RT ra = X.CALL(Y, Ja1); RT rb = X.CALL(Y, G::_, Jb1); RT r0 = X.CALL(Y); \
    out("v_ab", r2.coeffs()); out("v_a", ra.coeffs()); out("v_b", rb.coeffs()); out("v_", r0.coeffs()); \
    out("Ja_ab", Ja2); out("Ja_a", Ja1); out("Jb_ab", Jb2); out("Jb_b", Jb1); \
    out("X_after", X.coeffs()); out("Y_after", Y.coeffs()); out("X_before", sym_group<G>("x").coeffs()); out("Y_before", sym_group<G>("y").coeffs()); }
VS_SUBSETS_GG("compose", compose, G)
VS_SUBSETS_GG("between", between, G)
VS_SUBSETS_GG("rminus", rminus, T)
VS_SUBSETS_GG("lminus", lminus, T)
VS_SUBSETS_GG("minus", minus, T)
#define VS_SUBSETS_GT(NAME, CALL) \
  SCENARIO("subsets_" NAME) { \
    G X = sym_group<G>("x"); T t = sym_tangent<T>("t"); \
    JJ(Ja2); JJ(Jb2); JJ(Ja1); JJ(Jb1); \
    G r2 = X.CALL(t, Ja2, Jb2); G ra = X.CALL(t, Ja1); G rb = X.CALL(t, G::_, Jb1); G r0 = X.CALL(t); \
    out("v_ab", r2.coeffs()); out("v_a", ra.coeffs()); out("v_b", rb.coeffs()); out("v_", r0.coeffs()); \
    out("Ja_ab", Ja2); out("Ja_a", Ja1); out("Jb_ab", Jb2); out("Jb_b", Jb1); \
    out("X_after", X.coeffs()); out("Y_after", t.coeffs()); out("X_before", sym_group<G>("x").coeffs()); out("Y_before", sym_tangent<T>("t").coeffs()); }
VS_SUBSETS_GT("rplus", rplus)
VS_SUBSETS_GT("lplus", lplus)
VS_SUBSETS_GT("plus", plus)
SCENARIO("subsets_inverse") {
  G X = sym_group<G>("x"); JJ(J1);
  G r1 = X.inverse(J1); G r0 = X.inverse();
  out("v_a", r1.coeffs()); out("v_", r0.coeffs()); out("X_after", X.coeffs()); out("X_before", sym_group<G>("x").coeffs());
}
SCENARIO("subsets_log") {
  G X = sym_group<G>("x"); JJ(J1);
  T r1 = X.log(J1); T r0 = X.log();
  out("v_a", r1.coeffs()); out("v_", r0.coeffs()); out("X_after", X.coeffs()); out("X_before", sym_group<G>("x").coeffs());
}
SCENARIO("subsets_exp") {
  T t = sym_tangent<T>("t"); JJ(J1);
  G r1 = t.exp(J1); G r0 = t.exp();
  out("v_a", r1.coeffs()); out("v_", r0.coeffs()); out("X_after", t.coeffs()); out("X_before", sym_tangent<T>("t").coeffs());
}
SCENARIO("subsets_act") {
  G X = sym_group<G>("x"); Point p = sym_vec<Dim>("p");
  JacActM Jm2 = poison_mat<Dim, DoF>("Jm2"), Jm1 = poison_mat<Dim, DoF>("Jm1");
  JacActP Jp2 = poison_mat<Dim, Dim>("Jp2"), Jp1 = poison_mat<Dim, Dim>("Jp1");
  Point r2 = X.act(p, Jm2, Jp2), ra = X.act(p, Jm1), rb = X.act(p, tl::nullopt, Jp1), r0 = X.act(p);
  out("v_ab", r2); out("v_a", ra); out("v_b", rb); out("v_", r0);
  out("Ja_ab", Jm2); out("Ja_a", Jm1); out("Jb_ab", Jp2); out("Jb_b", Jp1);
  out("X_after", X.coeffs()); out("X_before", sym_group<G>("x").coeffs()); out("Y_after", p); out("Y_before", sym_vec<Dim>("p"));
}

// ---- an output bound to a block of a larger matrix writes exactly that block
SCENARIO("block_compose") {
  G X = sym_group<G>("x"), Y = sym_group<G>("y");
  Eigen::Matrix<Sym, 2 * DoF + 2, 2 * DoF + 3> big = poison_mat<2 * DoF + 2, 2 * DoF + 3>("big");
  Eigen::Ref<Jac> ra(big.block<DoF, DoF>(1, 2)), rb(big.block<DoF, DoF>(DoF + 2, DoF + 3));
  JJ(Ja); JJ(Jb);
  G r1 = X.compose(Y, ra, rb);
  G r0 = X.compose(Y, Ja, Jb);
  out("big", big); out("Ja", Ja); out("Jb", Jb); out("v_block", r1.coeffs()); out("v_plain", r0.coeffs());
  out_int("dof", DoF);
}
SCENARIO("block_exp_log") {
  T t = sym_tangent<T>("t"); G X = sym_group<G>("x");
  Eigen::Matrix<Sym, 2 * DoF + 2, 2 * DoF + 3> big = poison_mat<2 * DoF + 2, 2 * DoF + 3>("big");
  Eigen::Ref<Jac> ra(big.block<DoF, DoF>(1, 2)), rb(big.block<DoF, DoF>(DoF + 2, DoF + 3));
  JJ(Ja); JJ(Jb);
  t.exp(ra); X.log(rb); t.exp(Ja); X.log(Jb);
  out("big", big); out("Ja", Ja); out("Jb", Jb); out_int("dof", DoF);
}

// ---- repeating a call after unrelated library activity gives the identical result
static void unrelated_activity() {
  G I = G::Identity(); T Z = T::Zero();
  G W = sym_group<G>("w");
  G junk = W.compose(I).compose(Z.exp()).inverse(); (void)junk;
  T lz = I.log() + Z; (void)lz;
  Jac gj = Z.rjac() * I.adj() + W.adj(); (void)gj;
  T::LieAlg g0 = T::Generator(0); (void)g0;
}
#define VS_REPEAT(NAME, DECL, CALL1, CALL2, OUTS) \
  SCENARIO("repeat_" NAME) { \
    G X = sym_group<G>("x"), Y = sym_group<G>("y"); T t = sym_tangent<T>("t"); (void)Y; (void)t; \
    JJ(Ja); JJ(Jb); JJ(Ka); JJ(Kb); \
    DECL r1 = CALL1; unrelated_activity(); DECL r2 = CALL2; \
    out("r1", r1.coeffs()); out("r2", r2.coeffs()); out("Ja", Ja); out("Ka", Ka); out("Jb", Jb); out("Kb", Kb); }
VS_REPEAT("compose", G, X.compose(Y, Ja, Jb), X.compose(Y, Ka, Kb), 0)
VS_REPEAT("inverse", G, X.inverse(Ja), X.inverse(Ka), 0)
VS_REPEAT("log", T, X.log(Ja), X.log(Ka), 0)
VS_REPEAT("exp", G, t.exp(Ja), t.exp(Ka), 0)
VS_REPEAT("rminus", T, X.rminus(Y, Ja, Jb), X.rminus(Y, Ka, Kb), 0)
VS_REPEAT("rplus", G, X.rplus(t, Ja, Jb), X.rplus(t, Ka, Kb), 0)

// ---- results assigned back onto an operand equal the unaliased computation
SCENARIO("aliasing") {
  G X = sym_group<G>("x"), Y = sym_group<G>("y"); T t = sym_tangent<T>("t");
  { G A = X; A = A * A;        out("sq_alias", A.coeffs());  out("sq_plain", X.compose(X).coeffs()); }
  { G A = X; A = A.inverse();  out("inv_alias", A.coeffs()); out("inv_plain", X.inverse().coeffs()); }
  { G A = X; A += t;           out("plus_alias", A.coeffs()); out("plus_plain", X.rplus(t).coeffs()); }
  { G A = X; A *= Y;           out("mul_alias", A.coeffs());  out("mul_plain", X.compose(Y).coeffs()); }
  { G A = X; A = A.compose(Y); out("comp_alias", A.coeffs()); }
  { G A = Y; A = X.compose(A); out("comp_alias2", A.coeffs()); }
  { T a = t; a = a + a;        out("tsum_alias", a.coeffs()); out("tsum_plain", (t + t).coeffs()); }
}
VS_MAIN
