// smallAdj / Bracket scenarios (C06, C07); a separate TU so that a group whose
// smallAdj() cannot be instantiated is reported for exactly that function.
#include "harness.h"

using namespace vs;
typedef GROUP G;
typedef G::Tangent T;
enum { DoF = G::DoF };

SCENARIO("smallAdj") { T t = sym_tangent<T>("t"); out("t", t.coeffs()); out("out", t.smallAdj()); }
SCENARIO("bracket") {
  T a = sym_tangent<T>("a"), b = sym_tangent<T>("b");
  T c = T::Bracket(a, b);
  T d = a.bracket(b);
  out("a", a.coeffs()); out("b", b.coeffs()); out("out", c.coeffs()); out("member", d.coeffs());
}
VS_MAIN
