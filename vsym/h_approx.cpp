// Approximate equality (C18), per group.
#include "harness.h"

using namespace vs;
typedef GROUP G;
typedef G::Tangent T;
enum { DoF = G::DoF, Dim = G::Dim, Rep = G::RepSize };

SCENARIO("self") {
  G X = sym_group<G>("x");
  out_int("isApprox", X.isApprox(X, mk_var("e0")) ? 1 : 0);
  out_int("eq", (X == X) ? 1 : 0);
  out("diff", X.rminus(X).coeffs());
}
// the antipodal coefficient vector denotes the same transformation
template <typename GG> struct Anti { static bool apply(GG&) { return false; } };
#define VS_ANTI(GT, FIRST) \
  template <> struct Anti<GT> { static bool apply(GT& g) { for (int i = FIRST; i < FIRST + 4; ++i) g.coeffs()(i) = -g.coeffs()(i); return true; } };
VS_ANTI(manif::SO3<Sym>, 0)
VS_ANTI(manif::SE3<Sym>, 3)
VS_ANTI(manif::SE_2_3<Sym>, 3)
VS_ANTI(manif::SGal3<Sym>, 3)
SCENARIO("self_antipodal") {
  G X = sym_group<G>("x");
  G Y = X;
  bool has = Anti<G>::apply(Y);
  out_int("has", has ? 1 : 0);
  out_int("isApprox", X.isApprox(Y, mk_var("e0")) ? 1 : 0);
  out_int("eq", (X == Y) ? 1 : 0);
  out("diff", X.rminus(Y).coeffs());
}
// tangent comparison: the decision structure IS the relation
SCENARIO("tangent") {
  T a = sym_tangent<T>("a"), b = sym_tangent<T>("b"); Sym e = mk_var("e0");
  out("a", a.coeffs()); out("b", b.coeffs()); out("e", e);
  out_int("ab", a.isApprox(b, e) ? 1 : 0);
  out_int("ba", b.isApprox(a, e) ? 1 : 0);
}
SCENARIO("tangent_self") {
  T a = sym_tangent<T>("a"); Sym e = mk_var("e0");
  out_int("aa", a.isApprox(a, e) ? 1 : 0);
  out_int("eq", (a == a) ? 1 : 0);
}
// group comparison is the tangent comparison of Y (-) X against zero
SCENARIO("group") {
  G X = sym_group<G>("x"), Y = sym_group<G>("y"); Sym e = mk_var("e0");
  T d = X.rminus(Y);
  out("d", d.coeffs());
  out_int("xy", X.isApprox(Y, e) ? 1 : 0);
  out_int("doc", d.isApprox(T::Zero(), e) ? 1 : 0);
}
VS_MAIN
