// C04: plus / minus / between are the documented compositions; all aliases agree.
// Every scenario evaluates, in ONE execution, the canonical member, the documented composition of
// primitives and every alias; the tracer hash-conses expressions, so two results are the same
// computation iff their node ids coincide (checked by the contract as "same DAG").
#include "harness.h"

using namespace vs;
typedef GROUP G;
typedef G::Tangent T;
typedef G::Jacobian Jac;
enum { DoF = G::DoF, Dim = G::Dim, Rep = G::RepSize };

#define JJ(n) Jac n = poison_mat<DoF, DoF>(#n)

SCENARIO("plus_family") {
  G X = sym_group<G>("x"); T t = sym_tangent<T>("t");
  out("X", X.coeffs()); out("t", t.coeffs());
  JJ(Ja); JJ(Jb);
  out("rplus", X.rplus(t, Ja, Jb).coeffs()); out("rplus_Ja", Ja); out("rplus_Jb", Jb);
  out("doc_rplus", X.compose(t.exp()).coeffs());            // X * exp(t)
  JJ(Pa); JJ(Pb);
  out("plus", X.plus(t, Pa, Pb).coeffs()); out("plus_Ja", Pa); out("plus_Jb", Pb);
  out("op_plus", (X + t).coeffs());
  { G Y = X; Y += t; out("op_plus_assign", Y.coeffs()); }
  JJ(Ta); JJ(Tb);
  out("t_rplus", t.rplus(X, Ta, Tb).coeffs()); out("t_rplus_Jt", Ta); out("t_rplus_Jm", Tb);   // X * exp(t)
}
SCENARIO("lplus_family") {
  G X = sym_group<G>("x"); T t = sym_tangent<T>("t");
  out("X", X.coeffs()); out("t", t.coeffs());
  JJ(La); JJ(Lb);
  out("lplus", X.lplus(t, La, Lb).coeffs()); out("lplus_Ja", La); out("lplus_Jb", Lb);
  out("doc_lplus", t.exp().compose(X).coeffs());            // exp(t) * X
  out("t_op_plus", (t + X).coeffs());
  JJ(Ua); JJ(Ub);
  out("t_plus", t.plus(X, Ua, Ub).coeffs()); out("t_plus_Jt", Ua); out("t_plus_Jm", Ub);
  JJ(Va); JJ(Vb);
  out("t_lplus", t.lplus(X, Va, Vb).coeffs()); out("t_lplus_Jt", Va); out("t_lplus_Jm", Vb);
}

SCENARIO("minus_family") {
  G X = sym_group<G>("x"), Y = sym_group<G>("y");
  out("X", X.coeffs()); out("Y", Y.coeffs());
  JJ(Ja); JJ(Jb);
  out("rminus", X.rminus(Y, Ja, Jb).coeffs()); out("rminus_Ja", Ja); out("rminus_Jb", Jb);
  out("doc_rminus", Y.inverse().compose(X).log().coeffs()); // log(Y^-1 * X)
  JJ(Pa); JJ(Pb);
  out("minus", X.minus(Y, Pa, Pb).coeffs()); out("minus_Ja", Pa); out("minus_Jb", Pb);
  out("op_minus", (X - Y).coeffs());
}
SCENARIO("lminus_family") {
  G X = sym_group<G>("x"), Y = sym_group<G>("y");
  out("X", X.coeffs()); out("Y", Y.coeffs());
  JJ(La); JJ(Lb);
  out("lminus", X.lminus(Y, La, Lb).coeffs()); out("lminus_Ja", La); out("lminus_Jb", Lb);
  out("doc_lminus", X.compose(Y.inverse()).log().coeffs()); // log(X * Y^-1)
}

SCENARIO("between_family") {
  G X = sym_group<G>("x"), Y = sym_group<G>("y");
  out("X", X.coeffs()); out("Y", Y.coeffs());
  JJ(Ja); JJ(Jb);
  out("between", X.between(Y, Ja, Jb).coeffs()); out("between_Ja", Ja); out("between_Jb", Jb);
  out("doc_between", X.inverse().compose(Y).coeffs());      // X^-1 * Y
  out("compose", X.compose(Y).coeffs());
  out("op_mul", (X * Y).coeffs());
  { G Z = X; Z *= Y; out("op_mul_assign", Z.coeffs()); }
}

// (X + t) - X == t   and   X + (Y - X) == Y
SCENARIO("roundtrip_plus_minus") {
  G X = sym_group<G>("x"); T t = sym_tangent<T>("t");
  out("X", X.coeffs()); out("t", t.coeffs());
  out("out", (X + t).rminus(X).coeffs());
}
SCENARIO("roundtrip_minus_plus") {
  G X = sym_group<G>("x"), Y = sym_group<G>("y");
  out("X", X.coeffs()); out("Y", Y.coeffs());
  out("out", (X + (Y - X)).coeffs());
}

#ifdef VS_FREE_FUNCTIONS
// free-function facade of functions.h: one scenario per function (member and free form in one execution)
#define VS_FF(NAME, MEMBER, FREE) \
  SCENARIO("ff_" NAME) { \
    G X = sym_group<G>("x"), Y = sym_group<G>("y"); T t = sym_tangent<T>("t"); \
    Eigen::Matrix<Sym, Dim, 1> p = sym_vec<Dim>("p"); (void)Y; (void)t; (void)p; \
    out("m", MEMBER); out("f", FREE); }
VS_FF("inverse", X.inverse().coeffs(), manif::inverse(X).coeffs())
VS_FF("rplus", X.rplus(t).coeffs(), manif::rplus(X, t).coeffs())
VS_FF("lplus", X.lplus(t).coeffs(), manif::lplus(X, t).coeffs())
VS_FF("plus", X.plus(t).coeffs(), manif::plus(X, t).coeffs())
VS_FF("rminus", X.rminus(Y).coeffs(), manif::rminus(X, Y).coeffs())
VS_FF("lminus", X.lminus(Y).coeffs(), manif::lminus(X, Y).coeffs())
VS_FF("minus", X.minus(Y).coeffs(), manif::minus(X, Y).coeffs())
VS_FF("log", X.log().coeffs(), manif::log(X).coeffs())
VS_FF("lift", X.log().coeffs(), manif::lift(X).coeffs())
VS_FF("exp", t.exp().coeffs(), manif::exp(t).coeffs())
VS_FF("retract", t.exp().coeffs(), manif::retract(t).coeffs())
VS_FF("compose", X.compose(Y).coeffs(), manif::compose(X, Y).coeffs())
VS_FF("between", X.between(Y).coeffs(), manif::between(X, Y).coeffs())
VS_FF("act", X.act(p), manif::act(X, p))
VS_FF("coeffs", X.coeffs(), manif::coeffs(X))
SCENARIO("ff_identity") { G X = sym_group<G>("x"); manif::identity(X); out("f", X.coeffs()); out("m", G::Identity().coeffs()); }
SCENARIO("ff_zero") { T t = sym_tangent<T>("t"); manif::zero(t); out("f", t.coeffs()); out("m", T::Zero().coeffs()); }
#endif
#ifdef VS_ONE_FREE_FUNCTION
// one free function per translation unit: a function that cannot be instantiated is reported by name
#define VS_STR_(x) #x
#define VS_STR(x) VS_STR_(x)
SCENARIO("one") {
  G X = sym_group<G>("x"), Y = sym_group<G>("y"); T t = sym_tangent<T>("t");
  Eigen::Matrix<Sym, Dim, 1> p = sym_vec<Dim>("p");
  G Z = X; T z = t;
  (void)Y; (void)p; (void)Z; (void)z;
  VS_ONE_FREE_FUNCTION;
  out("done", Sym(1));
}
#endif
VS_MAIN
