// C12: generic in the scalar - dual numbers differentiate every operation correctly.
#include "harness.h"
#include "jet.h"
#include <manif/ceres/manifold.h>
#include <manif/ceres/local_parametrization.h>

using namespace vs;
typedef GROUP G;
typedef G::Tangent T;
typedef G::Jacobian Jac;
enum { DoF = G::DoF, Dim = G::Dim, Rep = G::RepSize };
typedef Jet<DoF> J1;                                   // one perturbed argument
typedef G::template LieGroupTemplate<J1> GJ;
typedef GJ::Tangent TJ;

static GJ lift(const G& X) { GJ r; for (int i = 0; i < Rep; ++i) r.coeffs()(i) = J1(X.coeffs()(i)); return r; }
static TJ lift(const T& t) { TJ r; for (int i = 0; i < DoF; ++i) r.coeffs()(i) = J1(t.coeffs()(i)); return r; }
static TJ delta() { TJ d; for (int i = 0; i < DoF; ++i) d.coeffs()(i) = J1(Sym(0), i); return d; }
template <typename D> static void out_primal(const std::string& n, const Eigen::MatrixBase<D>& m) {
  Eigen::Matrix<Sym, D::RowsAtCompileTime, D::ColsAtCompileTime> p;
  for (int c = 0; c < m.cols(); ++c) for (int r = 0; r < m.rows(); ++r) p(r, c) = m(r, c).a;
  out(n, p);
}
template <typename D> static void out_dual(const std::string& n, const Eigen::MatrixBase<D>& vec) {
  Eigen::Matrix<Sym, D::RowsAtCompileTime, DoF> p;
  for (int r = 0; r < vec.rows(); ++r) for (int k = 0; k < DoF; ++k) p(r, k) = vec(r).v(k);
  out(n, p);
}
#define JJ(n) Jac n = poison_mat<DoF, DoF>(#n)

// f : G -> G  (inverse);  d/dd [ f(X + d) - f(X) ] at d = 0 through the dual parts == analytic Jacobian
SCENARIO("jet_inverse") {
  G X = sym_group<G>("x"); JJ(J);
  G Y = X.inverse(J);
  GJ Xj = lift(X);
  GJ Yj0 = Xj.inverse();
  TJ R = Xj.rplus(delta()).inverse().rminus(Yj0);
  out("X", X.coeffs()); out("plain", Y.coeffs()); out_primal("primal", Yj0.coeffs()); out("J", J); out_dual("dual", R.coeffs());
}
SCENARIO("jet_log") {
  G X = sym_group<G>("x"); JJ(J);
  T y = X.log(J);
  GJ Xj = lift(X);
  TJ y0 = Xj.log();
  TJ R = Xj.rplus(delta()).log() - y0;
  out("X", X.coeffs()); out("plain", y.coeffs()); out_primal("primal", y0.coeffs()); out("J", J); out_dual("dual", R.coeffs());
}
SCENARIO("jet_exp") {
  T t = sym_tangent<T>("t"); JJ(J);
  G Y = t.exp(J);
  TJ tj = lift(t);
  GJ Y0 = tj.exp();
  TJ R = (tj + delta()).exp().rminus(Y0);
  out("t", t.coeffs()); out("plain", Y.coeffs()); out_primal("primal", Y0.coeffs()); out("J", J); out_dual("dual", R.coeffs());
}
SCENARIO("jet_compose_a") {
  G X = sym_group<G>("x"), Y = sym_group<G>("y"); JJ(Ja); JJ(Jb);
  G Z = X.compose(Y, Ja, Jb);
  GJ Xj = lift(X), Yj = lift(Y);
  GJ Z0 = Xj.compose(Yj);
  TJ Ra = Xj.rplus(delta()).compose(Yj).rminus(Z0);
  TJ Rb = Xj.compose(Yj.rplus(delta())).rminus(Z0);
  out("plain", Z.coeffs()); out_primal("primal", Z0.coeffs()); out("Ja", Ja); out("Jb", Jb); out_dual("dual_a", Ra.coeffs()); out_dual("dual_b", Rb.coeffs());
}
SCENARIO("jet_act") {
  G X = sym_group<G>("x"); Eigen::Matrix<Sym, Dim, 1> p = sym_vec<Dim>("p");
  Eigen::Matrix<Sym, Dim, DoF> Jm = poison_mat<Dim, DoF>("Jm");
  Eigen::Matrix<Sym, Dim, 1> q = X.act(p, Jm);
  GJ Xj = lift(X);
  Eigen::Matrix<J1, Dim, 1> pj; for (int i = 0; i < Dim; ++i) pj(i) = J1(p(i));
  Eigen::Matrix<J1, Dim, 1> q0 = Xj.act(pj);
  Eigen::Matrix<J1, Dim, 1> R = Xj.rplus(delta()).act(pj) - q0;
  out("plain", q); out_primal("primal", q0); out("Jm", Jm); out_dual("dual", R);
}
SCENARIO("jet_rplus_rminus") {
  // X = Y*Z with Z an input of its own: every pair (X, Y) arises exactly once, and the relative element Z = Y^-1 X,
  // whose angle selects log's small-angle branch inside rminus, is a variable (see C05's rminus_rel)
  G Y = sym_group<G>("y"), Zr = sym_group<G>("z"); G X = Y.compose(Zr);
  T t = sym_tangent<T>("t"); JJ(Ja); JJ(Jb); JJ(Ka); JJ(Kb);
  G Z = X.rplus(t, Ja, Jb); T u = X.rminus(Y, Ka, Kb);
  GJ Xj = lift(X), Yj = lift(Y); TJ tj = lift(t);
  GJ Z0 = Xj.rplus(tj); TJ u0 = Xj.rminus(Yj);
  out("rplus_Ja", Ja); out_dual("rplus_dual_a", Xj.rplus(delta()).rplus(tj).rminus(Z0).coeffs());
  out("rplus_Jb", Jb); out_dual("rplus_dual_b", Xj.rplus(tj + delta()).rminus(Z0).coeffs());
  out("rminus_Ka", Ka); out_dual("rminus_dual_a", (Xj.rplus(delta()).rminus(Yj) - u0).coeffs());
  out("rminus_Kb", Kb); out_dual("rminus_dual_b", (Xj.rminus(Yj.rplus(delta())) - u0).coeffs());
  out("plain_rplus", Z.coeffs()); out_primal("primal_rplus", Z0.coeffs()); out("plain_rminus", u.coeffs()); out_primal("primal_rminus", u0.coeffs());
}

// functors of manif/ceres over raw pointers, T = Sym and T = Jet
SCENARIO("functors") {
  G X = sym_group<G>("x"), Y = sym_group<G>("y"); T t = sym_tangent<T>("t");
  manif::CeresManifoldFunctor<G> mf;
  Sym xb[Rep], yb[Rep], tb[DoF], ob[Rep], db[DoF];
  for (int i = 0; i < Rep; ++i) { xb[i] = X.coeffs()(i); yb[i] = Y.coeffs()(i); ob[i] = mk_poison("o" + std::to_string(i)); }
  for (int i = 0; i < DoF; ++i) { tb[i] = t.coeffs()(i); db[i] = mk_poison("d" + std::to_string(i)); }
  mf.Plus(xb, tb, ob); out_buf("manifold_plus", ob, Rep); out("doc_plus", (X + t).coeffs());
  mf.Minus(yb, xb, db); out_buf("manifold_minus", db, DoF); out("doc_minus", (Y - X).coeffs());
  manif::CeresLocalParameterizationFunctor<G> lp;
  Sym ob2[Rep]; for (int i = 0; i < Rep; ++i) ob2[i] = mk_poison("p" + std::to_string(i));
  lp(xb, tb, ob2); out_buf("localparam_plus", ob2, Rep);
  // the same through dual numbers: primal parts agree with the plain run
  J1 xj[Rep], tj[DoF], oj[Rep];
  for (int i = 0; i < Rep; ++i) xj[i] = J1(xb[i]);
  for (int i = 0; i < DoF; ++i) tj[i] = J1(tb[i], i);
  mf.Plus(xj, tj, oj);
  Sym op[Rep]; for (int i = 0; i < Rep; ++i) op[i] = oj[i].a;
  out_buf("manifold_plus_jet_primal", op, Rep);
}
VS_MAIN
