// Averaging routines (C16), per group.  Containers are std::vector; sizes 0..3 and a small
// iteration budget keep the path enumeration finite (bounded, stated in the evidence).
#include "harness.h"
#include <vector>
using namespace vs;
typedef GROUP G;
typedef G::Tangent T;
enum { DoF = G::DoF, Dim = G::Dim, Rep = G::RepSize };
#ifndef VS_ITERS
#define VS_ITERS 2
#endif

#define VS_AVG(NAME, FN) \
  SCENARIO(NAME "_empty") { std::vector<G> v; G m = manif::FN(v); out("out", m.coeffs()); } \
  SCENARIO(NAME "_single") { G X = sym_group<G>("x"); std::vector<G> v{X}; G m = manif::FN(v); out("X", X.coeffs()); out("out", m.coeffs()); } \
  SCENARIO(NAME "_identical") { G X = sym_group<G>("x"); std::vector<G> v{X, X, X}; \
    G m = manif::FN(v, manif::Constants<Sym>::eps, VS_ITERS); out("X", X.coeffs()); out("out", m.coeffs()); } \
  SCENARIO(NAME "_two") { G X = sym_group<G>("x"), Y = sym_group<G>("y"); std::vector<G> v{X, Y}; \
    G m = manif::FN(v, manif::Constants<Sym>::eps, 1); out("X", X.coeffs()); out("Y", Y.coeffs()); out("out", m.coeffs()); } \
  SCENARIO(NAME "_two_left") { G X = sym_group<G>("x"), Y = sym_group<G>("y"), Z = sym_group<G>("z"); \
    std::vector<G> v{X, Y}, w{Z.compose(X), Z.compose(Y)}; \
    G m = manif::FN(v, manif::Constants<Sym>::eps, 1); G n = manif::FN(w, manif::Constants<Sym>::eps, 1); \
    out("lhs", n.coeffs()); out("rhs", Z.compose(m).coeffs()); }
#ifdef VS_NATIVE
// native only (bounded stand-in for the convergence clauses): K points within a geodesic ball of radius r around a
// centre exp(c); outputs the stationarity residual  | mean_i log(m^-1 X_i) |  and the norm deviation of the result
#define VS_STAT(NAME, FN) \
  SCENARIO(NAME "_stationarity") { \
    T c = sym_tangent<T>("c"); G C0 = c.exp(); std::vector<G> v; \
    for (int k = 0; k < 6; ++k) { T d; for (int i = 0; i < DoF; ++i) d.coeffs()(i) = mk_var("d" + std::to_string(k) + "_" + std::to_string(i)); v.push_back(C0.rplus(d)); } \
    G m = manif::FN(v); \
    T r = T::Zero(); for (size_t k = 0; k < v.size(); ++k) r = r + v[k].rminus(m); \
    r = r * (1.0 / v.size()); \
    out("residual", r.coeffs()); out("mean", m.coeffs()); }
#else
#define VS_STAT(NAME, FN)
#endif
// one routine per translation unit (-DVS_ROUTINE=n): a routine that cannot be instantiated is reported by name
#if VS_ROUTINE == 0
VS_AVG("biinvariant", average_biinvariant) VS_STAT("biinvariant", average_biinvariant)
#elif VS_ROUTINE == 1
VS_AVG("weighted", average)
#elif VS_ROUTINE == 2
VS_AVG("frechet_left", average_frechet_left) VS_STAT("frechet_left", average_frechet_left)
#else
VS_AVG("frechet_right", average_frechet_right) VS_STAT("frechet_right", average_frechet_right)
#endif
VS_MAIN
