// C10: views over external memory behave exactly like owning objects.
// Buffers carry sentinel (poison) guard cells on both sides; views are placed at cell offset
// VS_OFF (0 or 1) inside the data area.  Same-execution DAG identity against the owning object.
#include "harness.h"

using namespace vs;
typedef GROUP G;
typedef G::Tangent T;
typedef G::Jacobian Jac;
enum { DoF = G::DoF, Dim = G::Dim, Rep = G::RepSize, GUARD = 3 };
typedef Eigen::Map<G> MG;
typedef Eigen::Map<const G> CG;
typedef Eigen::Map<T> MT;
typedef Eigen::Map<const T> CT;
#ifndef VS_OFF
#define VS_OFF 0
#endif

struct Buf {
  std::vector<Sym> cells; int n; std::string tag;
  Buf(const std::string& prefix, int n_) : cells(n_ + 2 * GUARD + VS_OFF), n(n_), tag(prefix) {
    for (size_t i = 0; i < cells.size(); ++i) cells[i] = mk_poison("guard_" + prefix + std::to_string(i));
    for (int i = 0; i < n; ++i) cells[GUARD + VS_OFF + i] = mk_var(prefix + std::to_string(i));
  }
  Sym* data() { return &cells[GUARD + VS_OFF]; }
  void dump(const std::string& name) { out_buf(name, &cells[0], (int)cells.size()); out_int(name + "_first", GUARD + VS_OFF); out_int(name + "_n", n); }
};
#define JJ(n) Jac n = poison_mat<DoF, DoF>(#n)

// ---- read-only operations: owning vs Map vs Map<const>, and mixed operand kinds
SCENARIO("read_group") {
  Buf bx("x", Rep), by("y", Rep);
  G X = sym_group<G>("x"), Y = sym_group<G>("y");
  MG mx(bx.data()), my(by.data()); CG cx(bx.data()), cy(by.data());
  JJ(a1); JJ(b1); JJ(a2); JJ(b2); JJ(a3); JJ(b3);
  out("compose_o", X.compose(Y, a1, b1).coeffs()); out("compose_m", mx.compose(my, a2, b2).coeffs()); out("compose_c", cx.compose(cy, a3, b3).coeffs());
  out("compose_Ja_o", a1); out("compose_Ja_m", a2); out("compose_Ja_c", a3);
  out("compose_mixed1", X.compose(cy).coeffs()); out("compose_mixed2", mx.compose(Y).coeffs()); out("compose_mixed3", cx.compose(my).coeffs());
  out("inverse_o", X.inverse().coeffs()); out("inverse_m", mx.inverse().coeffs()); out("inverse_c", cx.inverse().coeffs());
  out("log_o", X.log().coeffs()); out("log_m", mx.log().coeffs()); out("log_c", cx.log().coeffs());
  out("adj_o", X.adj()); out("adj_m", mx.adj()); out("adj_c", cx.adj());
  out("between_o", X.between(Y).coeffs()); out("between_m", mx.between(cy).coeffs());
  out("rminus_o", X.rminus(Y).coeffs()); out("rminus_c", cx.rminus(my).coeffs());
  out("op_mul_o", (X * Y).coeffs()); out("op_mul_c", (cx * cy).coeffs());
  Eigen::Matrix<Sym, Dim, 1> p = sym_vec<Dim>("p");
  out("act_o", X.act(p)); out("act_m", mx.act(p)); out("act_c", cx.act(p));
  out("coeffs_m", mx.coeffs()); out("coeffs_c", cx.coeffs()); out("coeffs_o", X.coeffs());
  bx.dump("bufx"); by.dump("bufy");
}
SCENARIO("read_tangent") {
  Buf bt("t", DoF), bu("u", DoF);
  T t = sym_tangent<T>("t"), u = sym_tangent<T>("u");
  MT mt(bt.data()), mu(bu.data()); CT ct(bt.data()), cu(bu.data());
  JJ(a1); JJ(a2); JJ(a3);
  out("exp_o", t.exp(a1).coeffs()); out("exp_m", mt.exp(a2).coeffs()); out("exp_c", ct.exp(a3).coeffs());
  out("exp_J_o", a1); out("exp_J_m", a2); out("exp_J_c", a3);
  out("rjac_o", t.rjac()); out("rjac_m", mt.rjac()); out("rjac_c", ct.rjac());
  out("hat_o", t.hat()); out("hat_m", mt.hat()); out("hat_c", ct.hat());
  out("sum_o", (t + u).coeffs()); out("sum_m", (mt + mu).coeffs()); out("sum_c", (ct + cu).coeffs());
  out("neg_o", (-t).coeffs()); out("neg_c", (-ct).coeffs());
  out("scale_o", (t * Sym(2)).coeffs()); out("scale_c", (ct * Sym(2)).coeffs());
  G X = sym_group<G>("x");
  out("rplus_o", X.rplus(t).coeffs()); out("rplus_c", X.rplus(ct).coeffs()); out("rplus_m", X.rplus(mt).coeffs());
  bt.dump("buft"); bu.dump("bufu");
}

// ---- writes through a mutable view change exactly the viewed cells
#define VS_WRITE(NAME, STMT, EXPECT) \
  SCENARIO("write_" NAME) { \
    Buf bx("x", Rep), by("y", Rep); Buf bt("t", DoF); \
    G X = sym_group<G>("x"), Y = sym_group<G>("y"); T t = sym_tangent<T>("t"); (void)X; (void)Y; (void)t; \
    MG m(bx.data()); CG cy(by.data()); CT ct(bt.data()); MG my(by.data()); (void)cy; (void)ct; (void)my; \
    STMT; \
    bx.dump("buf"); by.dump("other"); out("expect", (EXPECT).coeffs()); }
VS_WRITE("assign_owning", m = Y, Y)
VS_WRITE("assign_const_map", m = cy, Y)
VS_WRITE("assign_map", m = my, Y)
VS_WRITE("assign_expr", m = X.compose(Y), X.compose(Y))
VS_WRITE("setIdentity", m.setIdentity(), G::Identity())
VS_WRITE("plus_assign", m += t, X.rplus(t))
VS_WRITE("plus_assign_map", m += ct, X.rplus(t))
VS_WRITE("mul_assign", m *= Y, X.compose(Y))
VS_WRITE("mul_assign_map", m *= cy, X.compose(Y))
VS_WRITE("coeff_write", m.coeffs()(Rep - 1) = mk_var("v0"), ([&]() { G E = X; E.coeffs()(Rep - 1) = mk_var("v0"); return E; })())
#if !defined(FAM_Rn) && !defined(FAM_Bundle)
VS_WRITE("normalize", m.normalize(), ([&]() { G E = X; E.normalize(); return E; })())
#endif
SCENARIO("write_setRandom") {
  Buf bx("x", Rep);
  MG m(bx.data());
  m.setRandom();
  bx.dump("buf");
}
SCENARIO("write_tangent") {
  Buf bt("t", DoF), bu("u", DoF);
  T t = sym_tangent<T>("t"), u = sym_tangent<T>("u");
  MT m(bt.data()); CT cu(bu.data());
  m += cu; m *= Sym(3); m -= u; 
  bt.dump("buf"); bu.dump("other");
  T e = t; e += u; e *= Sym(3); e -= u;
  out("expect", e.coeffs());
}
SCENARIO("write_tangent_zero") {
  Buf bt("t", DoF);
  MT m(bt.data());
  m.setZero();
  bt.dump("buf"); out("expect", T::Zero().coeffs());
}

// ---- a view is a VIEW: reads through a const view constructed earlier see later writes to the buffer
SCENARIO("view_sees_writes") {
  Buf bx("x", Rep); Buf bt("t", DoF);
  G Y = sym_group<G>("y"); T u = sym_tangent<T>("u");
  MG m(bx.data()); CG c(bx.data()); MT mt(bt.data()); CT ct(bt.data());
  out_int("const_view_data_is_buffer", c.coeffs().data() == bx.data() ? 1 : 0);
  out_int("mutable_view_data_is_buffer", m.coeffs().data() == bx.data() ? 1 : 0);
  out_int("const_tangent_view_data_is_buffer", ct.coeffs().data() == bt.data() ? 1 : 0);
  m = Y; mt = u;
  out("const_view_after_write", c.coeffs()); out("expected", Y.coeffs());
  out("inverse_through_const_view", c.inverse().coeffs()); out("inverse_expected", Y.inverse().coeffs());
  out("const_tangent_view_after_write", ct.coeffs()); out("t_expected", u.coeffs());
}

// ---- copy / move / cross-kind construction and assignment preserve coefficients exactly
SCENARIO("copies") {
  Buf bx("x", Rep); Buf bt("t", DoF);
  MG m(bx.data()); CG c(bx.data()); MT mt(bt.data()); CT ct(bt.data());
  G X = sym_group<G>("x"); T t = sym_tangent<T>("t");
  { G a(m); out("own_from_map", a.coeffs()); }
  { G a(c); out("own_from_cmap", a.coeffs()); }
  { G a; a = m; out("assign_from_map", a.coeffs()); }
  { G a; a = c; out("assign_from_cmap", a.coeffs()); }
  { G a(std::move(G(c))); out("move", a.coeffs()); }
  { T a(mt); out("t_own_from_map", a.coeffs()); }
  { T a(ct); out("t_own_from_cmap", a.coeffs()); }
  { T a; a = ct; out("t_assign_from_cmap", a.coeffs()); }
  out("X", X.coeffs()); out("t", t.coeffs());
}
VS_MAIN
