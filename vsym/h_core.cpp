// Core scenarios, compiled once per group with -DGROUP=<type>.
// Each scenario only declares symbolic inputs, calls the REAL function and
// dumps the outputs; all specification lives in /verif/contracts.
#include "harness.h"

using namespace vs;
typedef GROUP G;
typedef G::Tangent T;
typedef G::Jacobian Jac;
enum { DoF = G::DoF, Dim = G::Dim, Rep = G::RepSize };
typedef Eigen::Matrix<Sym, Dim, 1> Point;
typedef Eigen::Matrix<Sym, Dim, DoF> JacActM;
typedef Eigen::Matrix<Sym, Dim, Dim> JacActP;

static void dump_inputs_XY(const G& X, const G& Y) { out("X", X.coeffs()); out("Y", Y.coeffs()); }

// ---- compose, all subsets of optional outputs (C01, C05, C09)
SCENARIO("compose") {
  G X = sym_group<G>("x"), Y = sym_group<G>("y");
  Jac Ja = poison_mat<DoF, DoF>("Ja"), Jb = poison_mat<DoF, DoF>("Jb");
  G Z = X.compose(Y, Ja, Jb);
  dump_inputs_XY(X, Y);
  out("out", Z.coeffs()); out("Ja", Ja); out("Jb", Jb);
}
SCENARIO("compose__") {
  G X = sym_group<G>("x"), Y = sym_group<G>("y");
  G Z = X.compose(Y);
  dump_inputs_XY(X, Y);
  out("out", Z.coeffs());
}
SCENARIO("compose_a") {
  G X = sym_group<G>("x"), Y = sym_group<G>("y");
  Jac Ja = poison_mat<DoF, DoF>("Ja");
  G Z = X.compose(Y, Ja);
  dump_inputs_XY(X, Y);
  out("out", Z.coeffs()); out("Ja", Ja);
}
SCENARIO("compose_b") {
  G X = sym_group<G>("x"), Y = sym_group<G>("y");
  Jac Jb = poison_mat<DoF, DoF>("Jb");
  G Z = X.compose(Y, G::_, Jb);
  dump_inputs_XY(X, Y);
  out("out", Z.coeffs()); out("Jb", Jb);
}
SCENARIO("op_mul") {
  G X = sym_group<G>("x"), Y = sym_group<G>("y");
  G Z = X * Y;
  dump_inputs_XY(X, Y);
  out("out", Z.coeffs());
}

// ---- inverse
SCENARIO("inverse") {
  G X = sym_group<G>("x");
  Jac J = poison_mat<DoF, DoF>("J");
  G Z = X.inverse(J);
  out("X", X.coeffs()); out("out", Z.coeffs()); out("J", J);
}
SCENARIO("inverse__") {
  G X = sym_group<G>("x");
  G Z = X.inverse();
  out("X", X.coeffs()); out("out", Z.coeffs());
}

// ---- act
SCENARIO("act") {
  G X = sym_group<G>("x");
  Point p = sym_vec<Dim>("p");
  JacActM Jm = poison_mat<Dim, DoF>("Jm"); JacActP Jp = poison_mat<Dim, Dim>("Jp");
  Point q = X.act(p, Jm, Jp);
  out("X", X.coeffs()); out("p", p); out("out", q); out("Jm", Jm); out("Jp", Jp);
}
SCENARIO("act__") {
  G X = sym_group<G>("x");
  Point p = sym_vec<Dim>("p");
  Point q = X.act(p);
  out("X", X.coeffs()); out("p", p); out("out", q);
}
SCENARIO("act_m") {
  G X = sym_group<G>("x");
  Point p = sym_vec<Dim>("p");
  JacActM Jm = poison_mat<Dim, DoF>("Jm");
  Point q = X.act(p, Jm);
  out("X", X.coeffs()); out("p", p); out("out", q); out("Jm", Jm);
}
SCENARIO("act_p") {
  G X = sym_group<G>("x");
  Point p = sym_vec<Dim>("p");
  JacActP Jp = poison_mat<Dim, Dim>("Jp");
  Point q = X.act(p, tl::nullopt, Jp);
  out("X", X.coeffs()); out("p", p); out("out", q); out("Jp", Jp);
}

// ---- identity
SCENARIO("identity") {
  G I = G::Identity();
  G X = sym_group<G>("x");
  X.setIdentity();
  out("Identity", I.coeffs()); out("setIdentity", X.coeffs());
}

// ---- accessors tying manif's matrix view to the independent spec
#ifndef VS_NO_TRANSFORM
SCENARIO("transform") {
  G X = sym_group<G>("x");
  out("X", X.coeffs());
  out("transform", X.transform());
}
#endif
SCENARIO("adj") {
  G X = sym_group<G>("x");
  out("X", X.coeffs());
  out("adj", X.adj());
}


// ---- exp / log with and without Jacobian (C02, C03, C05, C09)
SCENARIO("exp") {
  T t = sym_tangent<T>("t");
  Jac J = poison_mat<DoF, DoF>("J");
  G Z = t.exp(J);
  out("t", t.coeffs()); out("out", Z.coeffs()); out("J", J);
}
SCENARIO("exp__") {
  T t = sym_tangent<T>("t");
  G Z = t.exp();
  out("t", t.coeffs()); out("out", Z.coeffs());
}
SCENARIO("log") {
  G X = sym_group<G>("x");
  Jac J = poison_mat<DoF, DoF>("J");
  T t = X.log(J);
  out("X", X.coeffs()); out("out", t.coeffs()); out("J", J);
}
SCENARIO("log__") {
  G X = sym_group<G>("x");
  T t = X.log();
  out("X", X.coeffs()); out("out", t.coeffs());
}

// ---- log applied to exp(t) (polar parametrisation of the input, L-POLAR) and to the
//      antipodal coefficient vector of the same transformation (C03, C05 for the large groups)
template <typename GG> struct RotSlots { static void negate(GG&) {} enum { has = 0 }; };
#define VS_ROT(GT, FIRST) \
  template <> struct RotSlots<GT> { \
    static void negate(GT& g) { for (int i = FIRST; i < FIRST + 4; ++i) g.coeffs()(i) = -g.coeffs()(i); } \
    enum { has = 1 }; };
VS_ROT(manif::SO3<Sym>, 0)
VS_ROT(manif::SE3<Sym>, 3)
VS_ROT(manif::SE_2_3<Sym>, 3)
VS_ROT(manif::SGal3<Sym>, 3)
SCENARIO("explog") {
  G X = sym_group<G>("x");
  T t = X.log();
  G Y = t.exp();
  out("X", X.coeffs()); out("t", t.coeffs()); out("Y", Y.coeffs());
}
SCENARIO("logexp") {
  T t = sym_tangent<T>("t");
  G X = t.exp();
  Jac J = poison_mat<DoF, DoF>("J");
  T u = X.log(J);
  out("t", t.coeffs()); out("X", X.coeffs()); out("out", u.coeffs()); out("J", J);
  out("rjac", t.rjac()); out("rjacinv", t.rjacinv());
}
SCENARIO("logexp_neg") {
  T t = sym_tangent<T>("t");
  G X = t.exp();
  RotSlots<G>::negate(X);
  Jac J = poison_mat<DoF, DoF>("J");
  T u = X.log(J);
  out("t", t.coeffs()); out("X", X.coeffs()); out("out", u.coeffs()); out("J", J);
  out("rjac", t.rjac()); out("rjacinv", t.rjacinv());
  out_int("has_double_cover", RotSlots<G>::has);
}

// ---- tangent-side Jacobian blocks and algebra (C06, C07)
SCENARIO("rjac")    { T t = sym_tangent<T>("t"); out("t", t.coeffs()); out("out", t.rjac()); }
SCENARIO("ljac")    { T t = sym_tangent<T>("t"); out("t", t.coeffs()); out("out", t.ljac()); }
SCENARIO("rjacinv") { T t = sym_tangent<T>("t"); out("t", t.coeffs()); out("out", t.rjacinv()); }
SCENARIO("ljacinv") { T t = sym_tangent<T>("t"); out("t", t.coeffs()); out("out", t.ljacinv()); }
#ifndef VS_NO_SMALLADJ
SCENARIO("smallAdj"){ T t = sym_tangent<T>("t"); out("t", t.coeffs()); out("out", t.smallAdj()); }
#endif
SCENARIO("hat")     { T t = sym_tangent<T>("t"); out("t", t.coeffs()); out("out", t.hat()); }

// ---- derived operations: value + both Jacobians, and every subset (C04, C05, C09)
#define VS_BIN_GT(NAME, CALL)                                                     \
  SCENARIO(NAME) {                                                                \
    G X = sym_group<G>("x"); T t = sym_tangent<T>("t");                           \
    Jac Ja = poison_mat<DoF, DoF>("Ja"), Jb = poison_mat<DoF, DoF>("Jb");         \
    G Z = X.CALL(t, Ja, Jb);                                                      \
    out("X", X.coeffs()); out("t", t.coeffs()); out("out", Z.coeffs()); out("Ja", Ja); out("Jb", Jb); } \
  SCENARIO(NAME "__") {                                                           \
    G X = sym_group<G>("x"); T t = sym_tangent<T>("t");                           \
    G Z = X.CALL(t);                                                              \
    out("X", X.coeffs()); out("t", t.coeffs()); out("out", Z.coeffs()); }         \
  SCENARIO(NAME "_a") {                                                           \
    G X = sym_group<G>("x"); T t = sym_tangent<T>("t");                           \
    Jac Ja = poison_mat<DoF, DoF>("Ja");                                          \
    G Z = X.CALL(t, Ja);                                                          \
    out("X", X.coeffs()); out("t", t.coeffs()); out("out", Z.coeffs()); out("Ja", Ja); } \
  SCENARIO(NAME "_b") {                                                           \
    G X = sym_group<G>("x"); T t = sym_tangent<T>("t");                           \
    Jac Jb = poison_mat<DoF, DoF>("Jb");                                          \
    G Z = X.CALL(t, G::_, Jb);                                                    \
    out("X", X.coeffs()); out("t", t.coeffs()); out("out", Z.coeffs()); out("Jb", Jb); }
VS_BIN_GT("rplus", rplus)
VS_BIN_GT("lplus", lplus)
VS_BIN_GT("plus", plus)

#define VS_BIN_GG(NAME, CALL, RT, COEFFS)                                         \
  SCENARIO(NAME) {                                                                \
    G X = sym_group<G>("x"), Y = sym_group<G>("y");                               \
    Jac Ja = poison_mat<DoF, DoF>("Ja"), Jb = poison_mat<DoF, DoF>("Jb");         \
    RT Z = X.CALL(Y, Ja, Jb);                                                     \
    dump_inputs_XY(X, Y); out("out", Z.coeffs()); out("Ja", Ja); out("Jb", Jb); } \
  SCENARIO(NAME "__") {                                                           \
    G X = sym_group<G>("x"), Y = sym_group<G>("y");                               \
    RT Z = X.CALL(Y);                                                             \
    dump_inputs_XY(X, Y); out("out", Z.coeffs()); }                               \
  SCENARIO(NAME "_a") {                                                           \
    G X = sym_group<G>("x"), Y = sym_group<G>("y");                               \
    Jac Ja = poison_mat<DoF, DoF>("Ja");                                          \
    RT Z = X.CALL(Y, Ja);                                                         \
    dump_inputs_XY(X, Y); out("out", Z.coeffs()); out("Ja", Ja); }                \
  SCENARIO(NAME "_b") {                                                           \
    G X = sym_group<G>("x"), Y = sym_group<G>("y");                               \
    Jac Jb = poison_mat<DoF, DoF>("Jb");                                          \
    RT Z = X.CALL(Y, G::_, Jb);                                                   \
    dump_inputs_XY(X, Y); out("out", Z.coeffs()); out("Jb", Jb); }
VS_BIN_GG("rminus", rminus, T, 0)
VS_BIN_GG("lminus", lminus, T, 0)
VS_BIN_GG("minus", minus, T, 0)
VS_BIN_GG("between", between, G, 0)

// ---- rminus / lminus with the first operand written as a product (C05): every pair (A, B) is (B*Z, B) resp.
// (Z*B, B) for exactly one Z, so the property "for all A, B" is the property "for all B, Z"; the relative element
// Z - whose angle selects log's small-angle branch - is then an input variable of its own.  Jcy / Jcz are
// compose()'s Jacobians (under contract in C05/compose), used by the chain rule for the B-derivative.
SCENARIO("rminus_rel") {
  G Y = sym_group<G>("y"), Z = sym_group<G>("z");
  Jac Jcy = poison_mat<DoF, DoF>("Jcy"), Jcz = poison_mat<DoF, DoF>("Jcz");
  G X = Y.compose(Z, Jcy, Jcz);
  Jac Ja = poison_mat<DoF, DoF>("Ja"), Jb = poison_mat<DoF, DoF>("Jb");
  T r = X.rminus(Y, Ja, Jb);
  out("Y", Y.coeffs()); out("Z", Z.coeffs()); out("X", X.coeffs());
  out("out", r.coeffs()); out("Ja", Ja); out("Jb", Jb); out("Jcy", Jcy); out("Jcz", Jcz);
}
SCENARIO("lminus_rel") {
  G Y = sym_group<G>("y"), Z = sym_group<G>("z");
  Jac Jcy = poison_mat<DoF, DoF>("Jcy"), Jcz = poison_mat<DoF, DoF>("Jcz");
  G X = Z.compose(Y, Jcz, Jcy);
  Jac Ja = poison_mat<DoF, DoF>("Ja"), Jb = poison_mat<DoF, DoF>("Jb");
  T r = X.lminus(Y, Ja, Jb);
  out("Y", Y.coeffs()); out("Z", Z.coeffs()); out("X", X.coeffs());
  out("out", r.coeffs()); out("Ja", Ja); out("Jb", Jb); out("Jcy", Jcy); out("Jcz", Jcz);
}

// ---- tangent plus / minus (C05)
SCENARIO("tplus") {
  T a = sym_tangent<T>("a"), b = sym_tangent<T>("b");
  Jac Ja = poison_mat<DoF, DoF>("Ja"), Jb = poison_mat<DoF, DoF>("Jb");
  T c = a.plus(b, Ja, Jb);
  out("a", a.coeffs()); out("b", b.coeffs()); out("out", c.coeffs()); out("Ja", Ja); out("Jb", Jb);
}
SCENARIO("tminus") {
  T a = sym_tangent<T>("a"), b = sym_tangent<T>("b");
  Jac Ja = poison_mat<DoF, DoF>("Ja"), Jb = poison_mat<DoF, DoF>("Jb");
  T c = a.minus(b, Ja, Jb);
  out("a", a.coeffs()); out("b", b.coeffs()); out("out", c.coeffs()); out("Ja", Ja); out("Jb", Jb);
}

VS_MAIN
