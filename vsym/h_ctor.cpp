// Construction / accessors / validation scenarios (C13), compiled per group with
// -DGROUP=<type> and one of -DFAM_SO2 -DFAM_SE2 -DFAM_SO3 -DFAM_SE3 -DFAM_SE_2_3 -DFAM_SGal3 -DFAM_Rn.
#include "harness.h"
#include <complex>

using namespace vs;
typedef GROUP G;
typedef G::Tangent T;
enum { DoF = G::DoF, Dim = G::Dim, Rep = G::RepSize };
typedef Eigen::Matrix<Sym, 3, 1> V3;
typedef Eigen::Matrix<Sym, 2, 1> V2;

// raw coefficient construction goes through the validating constructor: with assertions on,
// the path throws iff the rotation part is not unit-norm within the library's threshold
SCENARIO("ctor_coeffs") {
  Eigen::Matrix<Sym, Rep, 1> c = sym_vec<Rep>("c");
  G X(c);
  out("c", c); out("X", X.coeffs());
}
SCENARIO("assign_coeffs") {
  Eigen::Matrix<Sym, Rep, 1> c = sym_vec<Rep>("c");
  G X = G::Identity();
  X = c;
  out("c", c); out("X", X.coeffs());
}
SCENARIO("copy_ctor") {
  G X = sym_group<G>("x");
  G Y(X);
  G Z; Z = X;
  out("X", X.coeffs()); out("Y", Y.coeffs()); out("Z", Z.coeffs());
}
SCENARIO("cast") {
  G X = sym_group<G>("x");
  G Y = X.cast<Sym>();
  out("X", X.coeffs()); out("Y", Y.coeffs());
}
#if defined(VS_NATIVE) && !defined(FAM_Rn)
// native only (two real floating-point types are involved): a float element, valid in float, is cast to double
SCENARIO("cast_widen") {
  typedef G::LieGroupTemplate<float> GF;
  GF Xf;
  for (int i = 0; i < Rep; ++i) Xf.coeffs()(i) = static_cast<float>(mk_var("x" + std::to_string(i)));
  Xf.normalize();
  G Y = Xf.cast<double>();
  Eigen::Matrix<double, Rep, 1> xf = Xf.coeffs().cast<double>();
  out("Xf", xf); out("Y", Y.coeffs());
}
#endif
#ifndef FAM_Rn
SCENARIO("normalize") {
  G X;
  for (int i = 0; i < Rep; ++i) X.coeffs()(i) = mk_var("c" + std::to_string(i));
  out("c", X.coeffs());
  X.normalize();
  out("X", X.coeffs());
}
#endif

#ifdef FAM_SO2
SCENARIO("ctor_angle") {
  Sym th = mk_var("a0");
  G X(th);
  out("a", th); out("X", X.coeffs()); out("angle", X.angle());
}
SCENARIO("ctor_reim") {
  Sym re = mk_var("c0"), im = mk_var("c1");
  G X(re, im);
  out("X", X.coeffs());
}
SCENARIO("accessors") {
  G X = sym_group<G>("x");
  out("X", X.coeffs()); out("real", X.real()); out("imag", X.imag());
  out("rotation", X.rotation()); out("transform", X.transform());
  G Y(X.real(), X.imag());
  G Z(X.angle());
  out("rebuilt_reim", Y.coeffs()); out("rebuilt_angle", Z.coeffs());
}
#endif

#ifdef FAM_SE2
SCENARIO("ctor_angle") {
  Sym x = mk_var("p0"), y = mk_var("p1"), th = mk_var("a0");
  G X(x, y, th);
  out("X", X.coeffs()); out("angle", X.angle());
}
SCENARIO("ctor_reim") {
  G X(mk_var("c0"), mk_var("c1"), mk_var("c2"), mk_var("c3"));
  out("X", X.coeffs());
}
SCENARIO("ctor_complex") {
  V2 t = sym_vec<2>("p");
  std::complex<Sym> c(mk_var("q0"), mk_var("q1"));
  G X(t, c);
  G Y(t(0), t(1), c);
  out("X", X.coeffs()); out("Y", Y.coeffs());
}
SCENARIO("ctor_isometry") {
  G X0 = sym_group<G>("x");
  Eigen::Transform<Sym, 2, Eigen::Isometry> h = X0.isometry();
  G X(h);
  out("X0", X0.coeffs()); out("X", X.coeffs());
}
SCENARIO("accessors") {
  G X = sym_group<G>("x");
  out("X", X.coeffs()); out("real", X.real()); out("imag", X.imag()); out("x", X.x()); out("y", X.y());
  out("translation", X.translation());
  out("rotation", X.rotation()); out("transform", X.transform()); out("isometry", X.isometry().matrix());
  G Y(X.x(), X.y(), X.real(), X.imag());
  G Z(X.x(), X.y(), X.angle());
  out("rebuilt_reim", Y.coeffs()); out("rebuilt_angle", Z.coeffs());
}
#endif

#if defined(FAM_SO3) || defined(FAM_SE3) || defined(FAM_SE_2_3) || defined(FAM_SGal3)
static Eigen::Quaternion<Sym> sym_quat(const std::string& p) {
  Eigen::Quaternion<Sym> q; q.coeffs() = sym_vec<4>(p); return q;
}
#endif

#ifdef FAM_SO3
SCENARIO("ctor_quat") {
  Eigen::Quaternion<Sym> q = sym_quat("q");
  G X(q);
  G Y(q.x(), q.y(), q.z(), q.w());
  out("X", X.coeffs()); out("Y", Y.coeffs());
}
SCENARIO("ctor_angleaxis") {
  Sym a = mk_var("a0"); V3 n = sym_vec<3>("n");
  G X(Eigen::AngleAxis<Sym>(a, n));
  out("X", X.coeffs());
}
SCENARIO("ctor_rpy") {
  Sym r = mk_var("e0"), p = mk_var("e1"), y = mk_var("e2");
  G X(r, p, y);
  out("X", X.coeffs()); out("rotation", X.rotation());
}
SCENARIO("accessors") {
  G X = sym_group<G>("x");
  out("X", X.coeffs()); out("x", X.x()); out("y", X.y()); out("z", X.z()); out("w", X.w());
  out("quat", X.quat().coeffs());
  out("rotation", X.rotation()); out("transform", X.transform());
  G Y(X.quat());
  out("rebuilt_quat", Y.coeffs());
}
SCENARIO("set_quat") {
  G X = G::Identity();
  Eigen::Quaternion<Sym> q = sym_quat("q");
  X.quat(q);
  out("X", X.coeffs());
}
#endif

#ifdef FAM_SE3
SCENARIO("ctor_quat") {
  V3 t = sym_vec<3>("p"); Eigen::Quaternion<Sym> q = sym_quat("q");
  G X(t, q);
  out("X", X.coeffs());
}
SCENARIO("ctor_angleaxis") {
  V3 t = sym_vec<3>("p"); Sym a = mk_var("a0"); V3 n = sym_vec<3>("n");
  G X(t, Eigen::AngleAxis<Sym>(a, n));
  out("X", X.coeffs());
}
SCENARIO("ctor_rpy") {
  G X(mk_var("p0"), mk_var("p1"), mk_var("p2"), mk_var("e0"), mk_var("e1"), mk_var("e2"));
  out("X", X.coeffs()); out("rotation", X.rotation());
}
SCENARIO("ctor_so3") {
  V3 t = sym_vec<3>("p");
  manif::SO3<Sym> R = sym_group<manif::SO3<Sym> >("q");
  G X(t, R);
  out("X", X.coeffs());
}
SCENARIO("ctor_isometry") {
  // the isometry of a symbolic valid element: its rotation block ranges over every rotation matrix
  G X0 = sym_group<G>("x");
  Eigen::Transform<Sym, 3, Eigen::Isometry> h = X0.isometry();
  G X(h);
  out("X0", X0.coeffs()); out("X", X.coeffs());
}
SCENARIO("accessors") {
  G X = sym_group<G>("x");
  out("X", X.coeffs()); out("x", X.x()); out("y", X.y()); out("z", X.z());
  out("translation", X.translation()); out("quat", X.quat().coeffs());
  out("rotation", X.rotation()); out("transform", X.transform()); out("isometry", X.isometry().matrix());
  G Y(X.translation(), X.quat());
  out("rebuilt_quat", Y.coeffs());
}
#endif

#ifdef FAM_SE_2_3
SCENARIO("ctor_quat") {
  V3 t = sym_vec<3>("p"), v = sym_vec<3>("v"); Eigen::Quaternion<Sym> q = sym_quat("q");
  G X(t, q, v);
  out("X", X.coeffs());
}
SCENARIO("ctor_angleaxis") {
  V3 t = sym_vec<3>("p"), v = sym_vec<3>("v"); Sym a = mk_var("a0"); V3 n = sym_vec<3>("n");
  G X(t, Eigen::AngleAxis<Sym>(a, n), v);
  out("X", X.coeffs());
}
SCENARIO("ctor_rpy") {
  G X(mk_var("p0"), mk_var("p1"), mk_var("p2"), mk_var("e0"), mk_var("e1"), mk_var("e2"),
      mk_var("v0"), mk_var("v1"), mk_var("v2"));
  out("X", X.coeffs()); out("rotation", X.rotation());
}
SCENARIO("ctor_so3") {
  V3 t = sym_vec<3>("p"), v = sym_vec<3>("v");
  manif::SO3<Sym> R = sym_group<manif::SO3<Sym> >("q");
  G X(t, R, v);
  out("X", X.coeffs());
}
SCENARIO("accessors") {
  G X = sym_group<G>("x");
  out("X", X.coeffs()); out("x", X.x()); out("y", X.y()); out("z", X.z());
  out("vx", X.vx()); out("vy", X.vy()); out("vz", X.vz());
  out("translation", X.translation()); out("linearVelocity", X.linearVelocity()); out("quat", X.quat().coeffs());
  out("rotation", X.rotation()); out("transform", X.transform());
  G Y(X.translation(), X.quat(), X.linearVelocity());
  out("rebuilt_quat", Y.coeffs());
}
#endif

#ifdef FAM_SGal3
SCENARIO("ctor_quat") {
  V3 t = sym_vec<3>("p"), v = sym_vec<3>("v"); Eigen::Quaternion<Sym> q = sym_quat("q");
  G X(t, q, v, mk_var("s0"));
  out("X", X.coeffs());
}
SCENARIO("ctor_angleaxis") {
  V3 t = sym_vec<3>("p"), v = sym_vec<3>("v"); Sym a = mk_var("a0"); V3 n = sym_vec<3>("n");
  G X(t, Eigen::AngleAxis<Sym>(a, n), v, mk_var("s0"));
  out("X", X.coeffs());
}
SCENARIO("ctor_rpy") {
  G X(mk_var("p0"), mk_var("p1"), mk_var("p2"), mk_var("e0"), mk_var("e1"), mk_var("e2"),
      mk_var("v0"), mk_var("v1"), mk_var("v2"), mk_var("s0"));
  out("X", X.coeffs()); out("rotation", X.rotation());
}
SCENARIO("ctor_so3") {
  V3 t = sym_vec<3>("p"), v = sym_vec<3>("v");
  manif::SO3<Sym> R = sym_group<manif::SO3<Sym> >("q");
  G X(t, R, v, mk_var("s0"));
  out("X", X.coeffs());
}
SCENARIO("accessors") {
  G X = sym_group<G>("x");
  out("X", X.coeffs()); out("x", X.x()); out("y", X.y()); out("z", X.z());
  out("vx", X.vx()); out("vy", X.vy()); out("vz", X.vz()); out("t", X.t());
  out("translation", X.translation()); out("linearVelocity", X.linearVelocity()); out("quat", X.quat().coeffs());
  out("rotation", X.rotation()); out("transform", X.transform());
  G Y(X.translation(), X.quat(), X.linearVelocity(), X.t());
  out("rebuilt_quat", Y.coeffs());
}
#endif

#ifdef FAM_Rn
SCENARIO("accessors") {
  G X = sym_group<G>("x");
  out("X", X.coeffs()); out("transform", X.transform());
}
#endif

VS_MAIN
