// rjac / ljac / inverses / Adj identities (C06), compiled once per group.
#include "harness.h"

using namespace vs;
typedef GROUP G;
typedef G::Tangent T;
typedef G::Jacobian Jac;
enum { DoF = G::DoF, Dim = G::Dim, Rep = G::RepSize };

// everything that is a function of one tangent, in one DAG
SCENARIO("tan_all") {
  T t = sym_tangent<T>("t");
  G X = t.exp();
  out("t", t.coeffs()); out("X", X.coeffs());
  out("rjac", t.rjac()); out("ljac", t.ljac());
  out("rjacinv", t.rjacinv()); out("ljacinv", t.ljacinv());
  out("rjac_neg", (-t).rjac());
  out("AdjX", X.adj());
}
// cheaper pieces (used for the large groups in the quick tier)
SCENARIO("tan_jacs") {
  T t = sym_tangent<T>("t");
  G X = t.exp();
  out("t", t.coeffs()); out("X", X.coeffs());
  out("rjac", t.rjac()); out("ljac", t.ljac());
  out("rjac_neg", (-t).rjac());
}
SCENARIO("tan_inv") {
  T t = sym_tangent<T>("t");
  out("t", t.coeffs());
  out("rjac", t.rjac()); out("ljac", t.ljac());
  out("rjacinv", t.rjacinv()); out("ljacinv", t.ljacinv());
}
SCENARIO("tan_adj") {
  T t = sym_tangent<T>("t");
  G X = t.exp();
  out("t", t.coeffs()); out("X", X.coeffs());
  out("rjac", t.rjac()); out("ljac", t.ljac());
  out("AdjX", X.adj());
}
SCENARIO("adj") {
  G X = sym_group<G>("x");
  out("X", X.coeffs()); out("adj", X.adj());
}
SCENARIO("adj_compose") {
  G X = sym_group<G>("x"), Y = sym_group<G>("y");
  out("X", X.coeffs()); out("Y", Y.coeffs());
  out("AdjX", X.adj()); out("AdjY", Y.adj()); out("AdjXY", X.compose(Y).adj());
  out("AdjXinv", X.inverse().adj());
}
VS_MAIN
