// Lie-algebra structure scenarios (C07), compiled once per group with -DGROUP=<type>.
#include "harness.h"

using namespace vs;
typedef GROUP G;
typedef G::Tangent T;
enum { DoF = G::DoF, Dim = G::Dim, Rep = G::RepSize };

// Generator(i) for every valid index, and the two nearest invalid ones
template <int I> struct GenLoop {
  static void run() {
    GenLoop<I - 1>::run();
    out("G" + std::to_string(I - 1), T::Generator(I - 1));
  }
};
template <> struct GenLoop<0> { static void run() {} };

SCENARIO("generators") { GenLoop<DoF>::run(); out_int("dof", DoF); }
SCENARIO("generator_oob_hi") { out("G", T::Generator(DoF)); }
SCENARIO("generator_oob_lo") { out("G", T::Generator(-1)); }
SCENARIO("generator_member") { T t = sym_tangent<T>("t"); out("G0", t.generator(0)); out("GL", t.generator(DoF - 1)); }

SCENARIO("hat") { T t = sym_tangent<T>("t"); out("t", t.coeffs()); out("out", t.hat()); }
SCENARIO("vee_hat") {
  T t = sym_tangent<T>("t");
  T u = T::Vee(t.hat());
  out("t", t.coeffs()); out("out", u.coeffs());
}
SCENARIO("vee_generic") {
  // Vee of a matrix that is in the algebra but built independently of hat()
  T t = sym_tangent<T>("t");
  T::LieAlg A = T::LieAlg::Zero();
  for (int i = 0; i < DoF; ++i) A += t.coeffs()(i) * T::Generator(i);
  T u; u.setVee(A);
  out("t", t.coeffs()); out("out", u.coeffs());
}
SCENARIO("innerweights") {
  out("W", T::InnerWeights());
  T t = sym_tangent<T>("t");
  out("Wm", t.innerWeights());
}
SCENARIO("inner") {
  T a = sym_tangent<T>("a"), b = sym_tangent<T>("b");
  out("a", a.coeffs()); out("b", b.coeffs());
  out("inner", a.inner(b));
  out("sqwnorm", a.squaredWeightedNorm());
  out("wnorm", a.weightedNorm());
}
VS_MAIN
