// Bundle = direct product (C11): every scenario computes the operation on the Bundle AND on each
// element (extracted through element<i>() into an owning object) in the same DAG; the contract
// compares the Bundle result with the elements' results placed at offsets computed by the spec.
#include "harness.h"

using namespace vs;
typedef GROUP B;
typedef B::Tangent BT;
typedef B::Jacobian BJ;
enum { DoF = B::DoF, Dim = B::Dim, Rep = B::RepSize, N = B::BundleSize };

template <int I> struct E {
  typedef typename B::template Element<I> G;
  typedef typename G::Tangent T;
  typedef typename G::Jacobian J;
  static G of(const B& X) { G g(X.template element<I>()); return g; }
  static T of(const BT& t) { T e(t.template element<I>()); return e; }
  static std::string n(const char* s) { return std::string("e") + std::to_string(I) + "_" + s; }
};

template <int I, int NN> struct Each {
  typedef E<I> X;
  static void offsets(const B& b, const BT& t) {
    out_int(X::n("rep_off"), b.template element<I>().coeffs().data() - b.coeffs().data());
    out_int(X::n("dof_off"), t.template element<I>().coeffs().data() - t.coeffs().data());
    out_int(X::n("rep"), X::G::RepSize); out_int(X::n("dof"), X::G::DoF); out_int(X::n("dim"), X::G::Dim);
    out(X::n("view"), b.template element<I>().coeffs());
    out(X::n("tview"), t.template element<I>().coeffs());
    Each<I + 1, NN>::offsets(b, t);
  }
  static void compose(const B& a, const B& b) {
    typename X::J Ja = poison_mat<X::G::DoF, X::G::DoF>(X::n("pa")), Jb = poison_mat<X::G::DoF, X::G::DoF>(X::n("pb"));
    out(X::n("out"), X::of(a).compose(X::of(b), Ja, Jb).coeffs()); out(X::n("Ja"), Ja); out(X::n("Jb"), Jb);
    Each<I + 1, NN>::compose(a, b);
  }
  static void inverse(const B& a) {
    typename X::J Ja = poison_mat<X::G::DoF, X::G::DoF>(X::n("pa"));
    out(X::n("out"), X::of(a).inverse(Ja).coeffs()); out(X::n("J"), Ja);
    out(X::n("adj"), X::of(a).adj());
    Each<I + 1, NN>::inverse(a);
  }
  static void log(const B& a) {
    typename X::J Ja = poison_mat<X::G::DoF, X::G::DoF>(X::n("pa"));
    out(X::n("out"), X::of(a).log(Ja).coeffs()); out(X::n("J"), Ja);
    Each<I + 1, NN>::log(a);
  }
  static void exp(const BT& t) {
    typename X::J Ja = poison_mat<X::G::DoF, X::G::DoF>(X::n("pa"));
    out(X::n("out"), X::of(t).exp(Ja).coeffs()); out(X::n("J"), Ja);
    Each<I + 1, NN>::exp(t);
  }
  static void tan(const BT& t) {
    out(X::n("hat"), X::of(t).hat());
    out(X::n("rjac"), X::of(t).rjac()); out(X::n("ljac"), X::of(t).ljac());
    out(X::n("rjacinv"), X::of(t).rjacinv()); out(X::n("ljacinv"), X::of(t).ljacinv());
    Each<I + 1, NN>::tan(t);
  }
  template <typename P> static void act(const B& a, const P& p, int off) {
    Eigen::Matrix<Sym, X::G::Dim, 1> pe = p.template segment<X::G::Dim>(off);
    Eigen::Matrix<Sym, X::G::Dim, X::G::DoF> Jm = poison_mat<X::G::Dim, X::G::DoF>(X::n("pm"));
    Eigen::Matrix<Sym, X::G::Dim, X::G::Dim> Jp = poison_mat<X::G::Dim, X::G::Dim>(X::n("pp"));
    out(X::n("out"), X::of(a).act(pe, Jm, Jp)); out(X::n("Jm"), Jm); out(X::n("Jp"), Jp);
    Each<I + 1, NN>::act(a, p, off + X::G::Dim);
  }
};
template <int NN> struct Each<NN, NN> {
  static void offsets(const B&, const BT&) {}
  static void compose(const B&, const B&) {}
  static void inverse(const B&) {}
  static void log(const B&) {}
  static void exp(const BT&) {}
  static void tan(const BT&) {}
  template <typename P> static void act(const B&, const P&, int) {}
};

SCENARIO("offsets") {
  B X = sym_group<B>("x"); BT t = sym_tangent<BT>("t");
  out("X", X.coeffs()); out("t", t.coeffs());
  out_int("N", N); out_int("rep", Rep); out_int("dof", DoF); out_int("dim", Dim);
  Each<0, N>::offsets(X, t);
}
SCENARIO("compose") {
  B X = sym_group<B>("x"), Y = sym_group<B>("y");
  BJ Ja = poison_mat<DoF, DoF>("Ja"), Jb = poison_mat<DoF, DoF>("Jb");
  B Z = X.compose(Y, Ja, Jb);
  out("out", Z.coeffs()); out("Ja", Ja); out("Jb", Jb);
  Each<0, N>::compose(X, Y);
}
SCENARIO("compose_subsets") {
  // only the first / only the second Jacobian requested: still block-diagonal with literal zeros
  B X = sym_group<B>("x"), Y = sym_group<B>("y");
  BJ Ja = poison_mat<DoF, DoF>("Ja"), Jb = poison_mat<DoF, DoF>("Jb");
  B Z1 = X.compose(Y, Ja);
  B Z2 = X.compose(Y, B::_, Jb);
  out("out", Z1.coeffs()); out("out2", Z2.coeffs()); out("Ja", Ja); out("Jb", Jb);
  Each<0, N>::compose(X, Y);
}
SCENARIO("inverse") {
  B X = sym_group<B>("x");
  BJ J = poison_mat<DoF, DoF>("J");
  B Z = X.inverse(J);
  out("out", Z.coeffs()); out("J", J); out("adj", X.adj());
  Each<0, N>::inverse(X);
}
SCENARIO("log") {
  B X = sym_group<B>("x");
  BJ J = poison_mat<DoF, DoF>("J");
  BT t = X.log(J);
  out("out", t.coeffs()); out("J", J);
  Each<0, N>::log(X);
}
SCENARIO("exp") {
  BT t = sym_tangent<BT>("t");
  BJ J = poison_mat<DoF, DoF>("J");
  B X = t.exp(J);
  out("out", X.coeffs()); out("J", J);
  Each<0, N>::exp(t);
}
SCENARIO("tan") {
  BT t = sym_tangent<BT>("t");
  out("hat", t.hat());
  out("rjac", t.rjac()); out("ljac", t.ljac()); out("rjacinv", t.rjacinv()); out("ljacinv", t.ljacinv());
  BT u = BT::Vee(t.hat());
  out("vee_hat", u.coeffs());
  Each<0, N>::tan(t);
}
SCENARIO("act") {
  B X = sym_group<B>("x");
  Eigen::Matrix<Sym, Dim, 1> p = sym_vec<Dim>("p");
  Eigen::Matrix<Sym, Dim, DoF> Jm = poison_mat<Dim, DoF>("Jm");
  Eigen::Matrix<Sym, Dim, Dim> Jp = poison_mat<Dim, Dim>("Jp");
  out("out", X.act(p, Jm, Jp)); out("Jm", Jm); out("Jp", Jp);
  Each<0, N>::act(X, p, 0);
}
SCENARIO("random") {
  B X = B::Random();
  out("X", X.coeffs());
}
#ifdef VS_BUNDLE_TRANSFORM
SCENARIO("transform") {
  B X = sym_group<B>("x");
  out("X", X.coeffs()); out("transform", X.transform());
}
#endif
VS_MAIN
