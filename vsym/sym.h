// vs::Sym -- a recording scalar.  Instantiating the *real* manif templates with
// Scalar = vs::Sym and executing them once per branch-decision vector yields,
// for every path, the straight-line expression DAG the code computes.
// (DESIGN.md 3.2 "E1 symbolic-scalar instantiation")
//
// Semantics: a Sym denotes a real number.  Literals are the exact binary value
// of the double they were written as.  Comparisons between non-constant values
// are answered by a scripted decision oracle and recorded as path condition.
#ifndef VS_SYM_H
#define VS_SYM_H

#include <cmath>
#include <cstdint>
#include <cstdio>
#include <cstdlib>
#include <cstring>
#include <limits>
#include <map>
#include <ostream>
#include <string>
#include <tuple>
#include <type_traits>
#include <unordered_map>
#include <vector>

namespace vs {

enum Op : int {
  OP_UNDEF = 0, OP_CONST, OP_VAR, OP_ADD, OP_SUB, OP_MUL, OP_DIV, OP_NEG,
  OP_SIN, OP_COS, OP_SQRT, OP_ATAN2, OP_ABS, OP_ACOS, OP_ASIN, OP_CBRT, OP_TAN,
  OP_EXP, OP_LOG, OP_POISON, OP_FLOOR, OP_CEIL, OP_CONSTD, OP_NOPS
};

static const char* const op_names[] = {
  "undef", "const", "var", "add", "sub", "mul", "div", "neg",
  "sin", "cos", "sqrt", "atan2", "abs", "acos", "asin", "cbrt", "tan",
  "exp", "log", "poison", "floor", "ceil", "constd"
};

// exact rational constants (int64 numerator / denominator, checked for overflow);
// doubles that do not fit (huge exponents) are kept as OP_CONSTD with their
// double payload and are never folded (the engine converts them exactly).
typedef long long i64;
typedef __int128 i128;
struct Rat { i64 n, d; };
inline i64 gcd64(i64 a, i64 b) { if (a < 0) a = -a; if (b < 0) b = -b; while (b) { i64 t = a % b; a = b; b = t; } return a; }
inline bool rat_make(i128 n, i128 d, Rat& out) {
  if (d == 0) return false;
  if (d < 0) { n = -n; d = -d; }
  const i128 lim = ((i128)1) << 62;
  // reduce using 64-bit gcd when possible, else a 128-bit Euclid
  i128 a = n < 0 ? -n : n, b = d;
  while (b) { i128 t = a % b; a = b; b = t; }
  if (a > 1) { n /= a; d /= a; }
  if (n >= lim || n <= -lim || d >= lim) return false;
  out.n = (i64)n; out.d = (i64)d; return true;
}
inline bool rat_from_double(double v, Rat& out) {
  if (v == 0) { out.n = 0; out.d = 1; return true; }
  if (!(v == v) || v - v != 0) return false; // nan / inf
  int e; double m = std::frexp(v, &e);       // v = m * 2^e, 0.5 <= |m| < 1
  i64 mi = (i64)std::ldexp(m, 53); e -= 53;  // v = mi * 2^e exactly
  while ((mi & 1) == 0) { mi >>= 1; ++e; }
  if (e >= 0) { if (e > 62) return false; return rat_make((i128)mi << e, 1, out); }
  if (-e > 61) return false;
  return rat_make(mi, ((i128)1) << (-e), out);
}
inline double rat_to_double(const Rat& r) { return (double)r.n / (double)r.d; }

struct Node {
  int op;
  int a, b;
  Rat q;             // OP_CONST
  double val;        // OP_CONSTD
  std::string name;  // OP_VAR / OP_POISON
};

enum Rel : int { REL_LT = 0, REL_EQ = 1 };

struct Decision {
  int rel;       // REL_LT: a < b ; REL_EQ: a == b
  int a, b;
  bool val;
  int is_const;  // 1: both sides constant (evaluated natively, re-verified exactly by the engine)
                 // 2: assumed "within the validity threshold" (auto-valid mode; must be proved by the engine)
};

struct Ctx {
  std::vector<Node> nodes;
  std::map<std::tuple<int,int,int>, int> cons;
  std::map<std::pair<i64,i64>, int> const_cons;
  std::map<uint64_t, int> constd_cons;
  std::map<std::string, int> var_cons;

  // decision oracle
  std::vector<int> script;       // pre-set decisions (0/1)
  size_t pos = 0;
  std::vector<Decision> taken;
  std::map<std::tuple<int,int,int>, bool> memo;
  long fresh_counter = 0;

  Ctx() {
    Node u; u.op = OP_UNDEF; u.a = u.b = -1; u.val = 0; u.q = {0, 1};
    nodes.push_back(u); // id 0 == UNDEF
  }

  int mk_rat(Rat q) {
    auto key = std::make_pair(q.n, q.d);
    auto it = const_cons.find(key);
    if (it != const_cons.end()) return it->second;
    Node n; n.op = OP_CONST; n.a = n.b = -1; n.val = 0; n.q = q;
    nodes.push_back(n);
    int id = (int)nodes.size() - 1;
    const_cons[key] = id;
    return id;
  }
  int mk_const(double v) {
    Rat q;
    if (rat_from_double(v, q)) return mk_rat(q);
    uint64_t bits; std::memcpy(&bits, &v, 8);
    auto it = constd_cons.find(bits);
    if (it != constd_cons.end()) return it->second;
    Node n; n.op = OP_CONSTD; n.a = n.b = -1; n.val = v; n.q = {0, 1};
    nodes.push_back(n);
    int id = (int)nodes.size() - 1;
    constd_cons[bits] = id;
    return id;
  }
  int mk_var(const std::string& name, int op = OP_VAR) {
    auto it = var_cons.find(name);
    if (it != var_cons.end()) return it->second;
    Node n; n.op = op; n.a = n.b = -1; n.val = 0; n.q = {0, 1}; n.name = name;
    nodes.push_back(n);
    int id = (int)nodes.size() - 1;
    var_cons[name] = id;
    return id;
  }
  bool is_const(int id) const { return nodes[id].op == OP_CONST; }
  bool is_anyconst(int id) const { return nodes[id].op == OP_CONST || nodes[id].op == OP_CONSTD; }
  const Rat& q(int id) const { return nodes[id].q; }
  bool is_val(int id, i64 v) const { return is_const(id) && q(id).n == v && q(id).d == 1; }
  static bool isqrt(i64 v, i64& r) {
    if (v < 0) return false;
    i64 x = (i64)std::sqrt((double)v);
    for (i64 c = x > 0 ? x - 1 : 0; c <= x + 1; ++c) if (c * c == v) { r = c; return true; }
    return false;
  }
  int mk(int op, int a, int b = -1) {
    // exact constant folding over the rationals; anything that would overflow
    // int64 stays an operation node and is folded exactly by the engine
    if (op == OP_NEG) {
      if (is_const(a)) { Rat r = q(a); r.n = -r.n; return mk_rat(r); }
      if (nodes[a].op == OP_NEG) return nodes[a].a;
    }
    if ((op == OP_ADD || op == OP_SUB || op == OP_MUL || op == OP_DIV) && is_const(a) && is_const(b)) {
      const Rat &x = q(a), &y = q(b); Rat r; bool ok = false;
      if (op == OP_ADD) ok = rat_make((i128)x.n * y.d + (i128)y.n * x.d, (i128)x.d * y.d, r);
      if (op == OP_SUB) ok = rat_make((i128)x.n * y.d - (i128)y.n * x.d, (i128)x.d * y.d, r);
      if (op == OP_MUL) ok = rat_make((i128)x.n * y.n, (i128)x.d * y.d, r);
      if (op == OP_DIV && y.n != 0) ok = rat_make((i128)x.n * y.d, (i128)x.d * y.n, r);
      if (ok) return mk_rat(r);
    }
    if (op == OP_ADD) {
      if (is_val(a, 0)) return b;
      if (is_val(b, 0)) return a;
      if (a > b) std::swap(a, b);
    }
    if (op == OP_SUB) {
      if (is_val(b, 0)) return a;
      if (is_val(a, 0)) return mk(OP_NEG, b);
    }
    if (op == OP_MUL) {
      if (is_val(a, 0)) return a;
      if (is_val(b, 0)) return b;
      if (is_val(a, 1)) return b;
      if (is_val(b, 1)) return a;
      if (a > b) std::swap(a, b);
    }
    if (op == OP_DIV) {
      if (is_val(b, 1)) return a;
    }
    if (op == OP_ABS && is_const(a)) { Rat r = q(a); if (r.n < 0) r.n = -r.n; return mk_rat(r); }
    if (op == OP_SQRT && is_const(a)) {
      i64 rn, rd;
      if (isqrt(q(a).n, rn) && isqrt(q(a).d, rd)) return mk_rat(Rat{rn, rd});
    }
    if ((op == OP_SIN || op == OP_TAN || op == OP_ASIN) && is_val(a, 0)) return a;
    if (op == OP_COS && is_val(a, 0)) return mk_const(1);
    if (op == OP_ATAN2 && is_val(a, 0) && is_const(b) && q(b).n > 0) return a;
    if (op == OP_ACOS && is_val(a, 1)) return mk_const(0);
    auto key = std::make_tuple(op, a, b);
    auto it = cons.find(key);
    if (it != cons.end()) return it->second;
    Node n; n.op = op; n.a = a; n.b = b; n.val = 0; n.q = {0, 1};
    nodes.push_back(n);
    int id = (int)nodes.size() - 1;
    cons[key] = id;
    return id;
  }

  // auto-valid mode (VS_AUTO_VALID=1): comparisons of the form  |x - 1| <> eps  (the library's
  // normalisation tests on products of valid elements) are not branched on: they are answered
  // "within the threshold" and recorded as ASSUMED; the engine must prove each of them from the
  // contract's precondition (normal form), otherwise the run is rejected as undecided.
  bool auto_valid = false;
  bool is_eps(int id) const { return is_const(id) && q(id).n == 25 && q(id).d == 1125899906842624LL; }
  bool is_abs_minus_one(int id) const {
    if (nodes[id].op != OP_ABS) return false;
    const Node& s = nodes[nodes[id].a];
    return s.op == OP_SUB && is_val(s.b, 1);
  }
  bool validity_test(int a, int b, bool& val) const {
    if (is_eps(a) && is_abs_minus_one(b)) { val = false; return true; }   // eps < |x-1| : no
    if (is_abs_minus_one(a) && is_eps(b)) { val = true; return true; }    // |x-1| < eps : yes
    return false;
  }
  struct OracleInStatic {};
  bool decide(int rel, int a, int b) {
    if (rel == REL_EQ && a > b) std::swap(a, b);
    if (rel == REL_EQ && a == b) return true;
    if (rel == REL_LT && a == b) return false;
    auto key = std::make_tuple(rel, a, b);
    auto it = memo.find(key);
    if (it != memo.end()) return it->second;
    Decision d; d.rel = rel; d.a = a; d.b = b;
    if (is_const(a) && is_const(b)) {
      d.is_const = 1;
      i128 l = (i128)q(a).n * q(b).d, r = (i128)q(b).n * q(a).d;
      d.val = rel == REL_LT ? l < r : l == r;
    } else if (is_anyconst(a) && is_anyconst(b)) {
      // at least one huge double: compare natively; re-verified exactly by the engine
      d.is_const = 1;
      long double l = is_const(a) ? (long double)q(a).n / q(a).d : (long double)nodes[a].val;
      long double r = is_const(b) ? (long double)q(b).n / q(b).d : (long double)nodes[b].val;
      d.val = rel == REL_LT ? l < r : l == r;
    } else if (auto_valid && rel == REL_LT && validity_test(a, b, d.val)) {
      d.is_const = 2;
    } else {
      d.is_const = false;
      d.val = pos < script.size() ? (script[pos] != 0) : false;
      ++pos;
    }
    memo[key] = d.val;
    taken.push_back(d);
    return d.val;
  }
};

inline Ctx& ctx() { static Ctx c; return c; }

struct Sym {
  int id;
  Sym() : id(0) {}
  template <typename T, typename = typename std::enable_if<std::is_arithmetic<T>::value>::type>
  Sym(T v) : id(ctx().mk_const(static_cast<double>(v))) {}
  static Sym from_id(int i) { Sym s; s.id = i; return s; }
  static Sym var(const std::string& name) { return from_id(ctx().mk_var(name)); }
  static Sym poison(const std::string& name) { return from_id(ctx().mk_var(name, OP_POISON)); }

  Sym& operator+=(const Sym& o) { id = ctx().mk(OP_ADD, id, o.id); return *this; }
  Sym& operator-=(const Sym& o) { id = ctx().mk(OP_SUB, id, o.id); return *this; }
  Sym& operator*=(const Sym& o) { id = ctx().mk(OP_MUL, id, o.id); return *this; }
  Sym& operator/=(const Sym& o) { id = ctx().mk(OP_DIV, id, o.id); return *this; }
  Sym operator-() const { return from_id(ctx().mk(OP_NEG, id)); }
  Sym operator+() const { return *this; }
};

#define VS_BINOP(OPSYM, OPC)                                                            \
  inline Sym operator OPSYM(const Sym& a, const Sym& b) { return Sym::from_id(ctx().mk(OPC, a.id, b.id)); } \
  template <typename T, typename = typename std::enable_if<std::is_arithmetic<T>::value>::type>            \
  inline Sym operator OPSYM(const Sym& a, T b) { return a OPSYM Sym(b); }                                  \
  template <typename T, typename = typename std::enable_if<std::is_arithmetic<T>::value>::type>            \
  inline Sym operator OPSYM(T a, const Sym& b) { return Sym(a) OPSYM b; }
VS_BINOP(+, OP_ADD)
VS_BINOP(-, OP_SUB)
VS_BINOP(*, OP_MUL)
VS_BINOP(/, OP_DIV)
#undef VS_BINOP

inline bool lt(const Sym& a, const Sym& b) { return ctx().decide(REL_LT, a.id, b.id); }
inline bool eq(const Sym& a, const Sym& b) { return ctx().decide(REL_EQ, a.id, b.id); }

#define VS_CMP(OPSYM, EXPR)                                                             \
  inline bool operator OPSYM(const Sym& a, const Sym& b) { return EXPR; }               \
  template <typename T, typename = typename std::enable_if<std::is_arithmetic<T>::value>::type> \
  inline bool operator OPSYM(const Sym& a, T b_) { Sym b(b_); return EXPR; }            \
  template <typename T, typename = typename std::enable_if<std::is_arithmetic<T>::value>::type> \
  inline bool operator OPSYM(T a_, const Sym& b) { Sym a(a_); return EXPR; }
VS_CMP(<,  lt(a, b))
VS_CMP(>,  lt(b, a))
VS_CMP(<=, !lt(b, a))
VS_CMP(>=, !lt(a, b))
VS_CMP(==, eq(a, b))
VS_CMP(!=, !eq(a, b))
#undef VS_CMP

#define VS_UNARY(NAME, OPC) \
  inline Sym NAME(const Sym& a) { return Sym::from_id(ctx().mk(OPC, a.id)); }
VS_UNARY(sin, OP_SIN)
VS_UNARY(cos, OP_COS)
VS_UNARY(tan, OP_TAN)
VS_UNARY(sqrt, OP_SQRT)
VS_UNARY(abs, OP_ABS)
VS_UNARY(fabs, OP_ABS)
VS_UNARY(acos, OP_ACOS)
VS_UNARY(asin, OP_ASIN)
VS_UNARY(cbrt, OP_CBRT)
VS_UNARY(exp, OP_EXP)
VS_UNARY(log, OP_LOG)
VS_UNARY(floor, OP_FLOOR)
VS_UNARY(ceil, OP_CEIL)
#undef VS_UNARY
inline Sym atan2(const Sym& y, const Sym& x) { return Sym::from_id(ctx().mk(OP_ATAN2, y.id, x.id)); }
inline Sym abs2(const Sym& a) { return a * a; }
inline Sym conj(const Sym& a) { return a; }
inline Sym real(const Sym& a) { return a; }
inline Sym imag(const Sym&) { return Sym(0); }
inline bool isfinite(const Sym&) { return true; }   // reals: always finite (division safety is a SAFE obligation)
inline bool isnan(const Sym&) { return false; }
inline bool isinf(const Sym&) { return false; }
inline Sym pow(const Sym& a, int n) {
  Sym r(1); bool inv = n < 0; if (inv) n = -n;
  for (int i = 0; i < n; ++i) r = r * a;
  return inv ? Sym(1) / r : r;
}
inline Sym min(const Sym& a, const Sym& b) { return (b < a) ? b : a; }
inline Sym max(const Sym& a, const Sym& b) { return (a < b) ? b : a; }

inline std::ostream& operator<<(std::ostream& os, const Sym& s) { return os << "n" << s.id; }

// fresh variable (used by the rand() stand-ins)
inline Sym fresh(const char* prefix) {
  return Sym::var(std::string(prefix) + std::to_string(ctx().fresh_counter++));
}

} // namespace vs

namespace std {
template <> class numeric_limits<vs::Sym> {
public:
  static const bool is_specialized = true;
  static const bool is_signed = true;
  static const bool is_integer = false;
  static const bool is_exact = false;
  static const bool has_infinity = false;
  static const bool has_quiet_NaN = false;
  static const int digits = 53;
  static const int digits10 = 15;
  static const int max_digits10 = 17;
  static vs::Sym epsilon() { return vs::Sym(std::numeric_limits<double>::epsilon()); }
  static vs::Sym min() { return vs::Sym(std::numeric_limits<double>::min()); }
  static vs::Sym max() { return vs::Sym(std::numeric_limits<double>::max()); }
  static vs::Sym lowest() { return vs::Sym(std::numeric_limits<double>::lowest()); }
};
} // namespace std

#endif
