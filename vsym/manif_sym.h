// Glue that lets the real manif headers (from /repo/include) be instantiated
// with Scalar = vs::Sym.  Nothing in /repo is modified: only the documented
// extension points are specialised (Constants<>, internal::is_ad<>,
// Eigen::NumTraits<>), exactly as manif/ceres/*.h does for ceres::Jet.
#ifndef VS_MANIF_SYM_H
#define VS_MANIF_SYM_H

#include "sym.h"

#include <Eigen/Core>
#include <Eigen/LU>
#include <Eigen/Geometry>

namespace Eigen {
template <> struct NumTraits<vs::Sym> : GenericNumTraits<vs::Sym> {
  typedef vs::Sym Real;
  typedef vs::Sym NonInteger;
  typedef vs::Sym Nested;
  typedef vs::Sym Literal;
  enum {
    IsComplex = 0, IsInteger = 0, IsSigned = 1, RequireInitialization = 1,
    ReadCost = 1, AddCost = 3, MulCost = 3
  };
  static inline Real epsilon() { return vs::Sym(std::numeric_limits<double>::epsilon()); }
  static inline Real dummy_precision() { return vs::Sym(1e-12); }
  static inline Real highest() { return vs::Sym(std::numeric_limits<double>::max()); }
  static inline Real lowest() { return vs::Sym(std::numeric_limits<double>::lowest()); }
  static inline int digits10() { return 15; }
};

namespace internal {
// A-RAND: Eigen's random<Scalar>(lo,hi) returns a fresh variable in [lo,hi];
// the range facts are recorded as outputs of the path ("rand" records).
template <> struct random_default_impl<vs::Sym, false, false> {
  static inline vs::Sym run(const vs::Sym& x, const vs::Sym& y);
  static inline vs::Sym run() { return run(vs::Sym(-1), vs::Sym(1)); }
};
} // namespace internal
} // namespace Eigen

namespace vs {
struct RandRec { int var, lo, hi; };
inline std::vector<RandRec>& rand_records() { static std::vector<RandRec> r; return r; }
} // namespace vs

inline vs::Sym Eigen::internal::random_default_impl<vs::Sym, false, false>::run(
    const vs::Sym& x, const vs::Sym& y) {
  vs::Sym v = vs::fresh("rnd");
  vs::rand_records().push_back({v.id, x.id, y.id});
  return v;
}

#include <manif/constants.h>
#include <manif/impl/traits.h>

namespace manif {
template <> struct Constants<vs::Sym> {
  static const vs::Sym eps;
  static const vs::Sym eps_sqrt;
  static const vs::Sym to_rad;
  static const vs::Sym to_deg;
};
// same values as Constants<double>
const vs::Sym Constants<vs::Sym>::eps = vs::Sym(Constants<double>::eps);
const vs::Sym Constants<vs::Sym>::eps_sqrt = vs::Sym(Constants<double>::eps_sqrt);
const vs::Sym Constants<vs::Sym>::to_rad = vs::Sym(Constants<double>::to_rad);
const vs::Sym Constants<vs::Sym>::to_deg = vs::Sym(Constants<double>::to_deg);
namespace internal {
template <> struct is_ad<vs::Sym> : std::integral_constant<bool, true> {};
} // namespace internal
} // namespace manif

#ifdef VS_STUB_LARGE_INVERSE
// A-EIGEN-INV: for N > 4 Eigen's inverse() is PartialPivLU with data-dependent
// pivoting (up to 2^63 paths for a 10x10).  For Sym only, replace it by a
// contract stub: the result is a matrix of fresh variables X (named inv<k>_r_c)
// recorded together with the argument, under the contract M*X = I.
namespace vs {
struct InvRec { int n; std::vector<int> m, x; };
inline std::vector<InvRec>& inv_records() { static std::vector<InvRec> r; return r; }
} // namespace vs
namespace Eigen { namespace internal {
template <typename MatrixType, typename ResultType, int Size>
struct vs_inverse_stub {
  static inline void run(const MatrixType& matrix, ResultType& result) {
    typename MatrixType::PlainObject m = matrix;
    // the stub is a function: the same argument matrix (same expression DAG) gives the same result
    std::vector<int> key;
    for (int c = 0; c < Size; ++c) for (int r = 0; r < Size; ++r) key.push_back(m(r, c).id);
    for (size_t j = 0; j < vs::inv_records().size(); ++j) {
      const vs::InvRec& old = vs::inv_records()[j];
      if (old.n == Size && old.m == key) {
        for (int c = 0; c < Size; ++c) for (int r = 0; r < Size; ++r)
          result.coeffRef(r, c) = vs::Sym::from_id(old.x[c * Size + r]);
        return;
      }
    }
    int k = (int)vs::inv_records().size();
    vs::InvRec rec; rec.n = Size;
    for (int c = 0; c < Size; ++c) for (int r = 0; r < Size; ++r) {
      vs::Sym v = vs::Sym::var("inv" + std::to_string(k) + "_" + std::to_string(r) + "_" + std::to_string(c));
      result.coeffRef(r, c) = v;
      rec.m.push_back(m(r, c).id);
      rec.x.push_back(v.id);
    }
    vs::inv_records().push_back(rec);
  }
};
#define VS_INV_STUB(N) \
  template <typename ResultType> \
  struct compute_inverse<Matrix<vs::Sym, N, N>, ResultType, N> \
    : vs_inverse_stub<Matrix<vs::Sym, N, N>, ResultType, N> {};
VS_INV_STUB(5) VS_INV_STUB(6) VS_INV_STUB(7) VS_INV_STUB(8) VS_INV_STUB(9) VS_INV_STUB(10)
VS_INV_STUB(11) VS_INV_STUB(12) VS_INV_STUB(13) VS_INV_STUB(14) VS_INV_STUB(15) VS_INV_STUB(16)
#undef VS_INV_STUB
}} // namespace Eigen::internal
#endif

#include <manif/manif.h>

#endif
